import D2P.Props.C02Post
/-!
# C05 — element, style and table lineage of EVERY record, for every tree

`C05_elem_style` / `C05_cell_lineage` speak about one paragraph without nested blocks.  This file lifts
them to every record of every tree, along `walk_post` (C02): `metaOf p` = (identity, style id, lineage)
of a record that has an identity.  Walking ANY element appends to the metas of the closed records a list
`ms` whose identities are `post x` and in which every entry belongs to a `w:p` element `y` the walk
descends to (`postX`): the record points at `y`, reports `getPStyle y`, and — if `y` stands below a
`w:tc` — reports the table lineage ("document", "tbl", "tr", "tc", "p").  Nothing changes the
identity, style or lineage of a record once its paragraph has been opened.
-/
namespace D2P

abbrev Meta := Nat × Str × Lineage

def metaOf (p : Par) : Option Meta := p.elem.map (fun i => (i, p.style, p.lineage))
def metaPs (ps : List Par) : List Meta := ps.filterMap metaOf
def metaL (l : List Nest) : List Meta := metaPs (leafParsL l)
def stackM (s : DC) : List Meta := metaPs s.openPars

theorem metaOf_anon {p : Par} (h : p.elem = none) : metaOf p = none := by simp [metaOf, h]

theorem metaPs_append (a b : List Par) : metaPs (a ++ b) = metaPs a ++ metaPs b := by simp [metaPs]

theorem metaL_append (a b : List Nest) : metaL (a ++ b) = metaL a ++ metaL b := by
  simp [metaL, leafParsL_append, metaPs_append]

theorem metaL_cons (x : Nest) (l : List Nest) : metaL (x :: l) = metaPs (leafParsT x) ++ metaL l := by
  simp [metaL, leafParsL, metaPs_append]

theorem metaPs_ids (ps : List Par) : (metaPs ps).map (·.1) = elemsOf ps := by
  induction ps with
  | nil => rfl
  | cons p ps ih =>
    cases he : p.elem with
    | none => simp [metaPs, metaOf, elemsOf, he] at ih ⊢; exact ih
    | some i => simp [metaPs, metaOf, elemsOf, he] at ih ⊢; exact ih

/-- an operation that neither closes nor opens a paragraph with an identity, and changes no identity, style or lineage -/
structure QuietM (s s' : DC) : Prop where
  closed : metaL s'.root = metaL s.root
  stack : stackM s' = stackM s

theorem QuietM.refl (s : DC) : QuietM s s := ⟨rfl, rfl⟩
theorem QuietM.trans {a b c : DC} (x : QuietM a b) (y : QuietM b c) : QuietM a c :=
  ⟨y.closed.trans x.closed, y.stack.trans x.stack⟩

theorem quietM_of_frame {s s' : DC} (f : Frame s s') : QuietM s s' :=
  ⟨by unfold metaL; rw [f.leaves], by unfold stackM; rw [f.openPars]⟩

theorem stackM_modTop (s : DC) (f : Par → Par) (hf : ∀ p, metaOf (f p) = metaOf p) : stackM (s.modTop f) = stackM s := by
  unfold DC.modTop stackM
  cases hl : s.openPars.getLast? with
  | none => rfl
  | some q =>
    simp only
    conv => rhs; rw [last_split s.openPars q hl]
    rw [metaPs_append, metaPs_append]
    congr 1
    simp only [metaPs, List.filterMap_cons, hf, List.filterMap_nil]

theorem modTop_quietM (s : DC) (f : Par → Par) (hf : ∀ p, metaOf (f p) = metaOf p) : QuietM s (s.modTop f) :=
  ⟨by rw [(modTop_same s f).1], stackM_modTop s f hf⟩

/-! ## the primitives -/

/-- `commence_paragraph`: the new record carries the element's identity, its style id and — below a cell — the table lineage -/
theorem commencePar_meta (html : Bool) (s s' : DC) (e : Option Xml) (c : Bool) (h : s.commencePar html e c = .ok s') :
    metaL s'.root = metaL s.root ∧ ∃ p, s'.openPars = s.openPars ++ [p] ∧ p.elem = e.bind Xml.id? ∧
      (∀ x, e = some x → getPStyle x = .ok p.style ∧ (c = true → p.lineage = tableLineage)) := by
  unfold DC.commencePar at h
  obtain ⟨s1, h1, h⟩ := bind_ok h
  obtain ⟨hsx, _, h⟩ := bind_ok h
  obtain ⟨st, hst, h⟩ := bind_ok h
  have := pure_ok h; subst this
  have f1 := setCaret_frame s s1 _ _ h1
  refine ⟨by show metaL s1.root = _; unfold metaL; rw [f1.leaves],
    { elem := e.bind Xml.id?, htmlStyle := hsx, style := st, lineage := (if e.isSome && c then tableLineage else s1.lineage), runs := s1.queued },
    by simp [f1.openPars], rfl, ?_⟩
  intro x hx
  subst hx
  simp only at hst
  refine ⟨hst, ?_⟩
  intro hc
  simp [hc]

theorem ensurePar_quietM (html : Bool) (s s' : DC) (h : s.ensurePar html = .ok s') : QuietM s s' := by
  unfold DC.ensurePar at h
  split at h
  · obtain ⟨hc, p, ho, hp, _⟩ := commencePar_meta html s s' none false h
    refine ⟨hc, ?_⟩
    unfold stackM; rw [ho, metaPs_append]
    have : p.elem = none := by simpa using hp
    simp [metaPs, metaOf_anon this]
  · have := pure_ok h; subst this; exact QuietM.refl s

theorem commenceRun_quietM (html : Bool) (s s' : DC) (e : Option Xml) (h : s.commenceRun html e = .ok s') : QuietM s s' := by
  unfold DC.commenceRun at h
  obtain ⟨_, _, h⟩ := bind_ok h
  obtain ⟨s1, h1, h⟩ := bind_ok h
  have := pure_ok h; subst this
  exact (ensurePar_quietM html s s1 h1).trans (modTop_quietM s1 _ (fun _ => rfl))

theorem ensureRun_quietM (html : Bool) (s s' : DC) (h : s.ensureRun html = .ok s') : QuietM s s' := by
  unfold DC.ensureRun at h
  obtain ⟨s1, h1, h⟩ := bind_ok h
  have := pure_ok h; subst this
  exact (ensurePar_quietM html s s1 h1).trans (modTop_quietM s1 _ (fun p => by split <;> rfl))

theorem appendToLastRun_meta (p : Par) (t : Str) : metaOf (appendToLastRun p t) = metaOf p := by
  unfold appendToLastRun; split <;> rfl

theorem addCode_quietM (html : Bool) (s s' : DC) (t : Str) (h : s.addCode html t = .ok s') : QuietM s s' := by
  unfold DC.addCode at h
  obtain ⟨s1, h1, h⟩ := bind_ok h
  have := pure_ok h; subst this
  exact (ensureRun_quietM html s s1 h1).trans (modTop_quietM s1 _ (fun p => appendToLastRun_meta p t))

theorem insertNewRun_quietM (html : Bool) (s s' : DC) (t : Str) (h : s.insertNewRun html t = .ok s') : QuietM s s' := by
  unfold DC.insertNewRun at h
  obtain ⟨s1, h1, h⟩ := bind_ok h
  have := pure_ok h; subst this
  exact (ensureRun_quietM html s s1 h1).trans (modTop_quietM s1 _ (fun _ => rfl))

theorem insertOpt_quietM (html : Bool) (s s' : DC) (t : Option Str) (h : insertOpt html s t = .ok s') : QuietM s s' := by
  unfold insertOpt at h
  split at h
  · exact insertNewRun_quietM html s s' _ h
  · have := pure_ok h; subst this; exact QuietM.refl s

theorem startRange_quietM (s s' : DC) (id : Str) (h : s.startRange id = .ok s') : QuietM s s' := by
  unfold DC.startRange at h
  obtain ⟨_, _, h⟩ := bind_ok h
  have := pure_ok h; subst this; exact ⟨rfl, rfl⟩

theorem endRange_quietM (s s' : DC) (id : Str) (h : s.endRange id = .ok s') : QuietM s s' := by
  unfold DC.endRange at h
  obtain ⟨_, _, h⟩ := bind_ok h
  have := pure_ok h; subst this; exact ⟨rfl, rfl⟩

/-- concluding the innermost open paragraph moves its meta (if it has an identity) from the stack to the closed records -/
theorem concludePar_meta (s s' : DC) (p : Par) (hl : s.openPars.getLast? = some p) (h : s.concludePar = .ok s') :
    metaL s'.root = metaL s.root ++ (metaOf p).toList ∧ s'.openPars = s.openPars.dropLast := by
  obtain ⟨hlv, ho, _⟩ := concludePar_spec s s' p hl h
  refine ⟨?_, ho⟩
  unfold metaL; rw [hlv, metaPs_append]
  cases hm : metaOf p <;> simp [metaPs, hm]

theorem flushImplicit_quietM (s s' : DC) (d : Option Nat) (h : s.flushImplicit d = .ok s') : QuietM s s' := by
  unfold DC.flushImplicit at h
  cases d with
  | none => have := pure_ok h; subst this; exact QuietM.refl s
  | some d =>
    simp only at h
    cases hl : s.openPars.getLast? with
    | none => rw [hl] at h; have := pure_ok h; subst this; exact QuietM.refl s
    | some p =>
      rw [hl] at h
      simp only at h
      split at h
      · rename_i hn
        have hpn : p.elem = none := Option.isNone_iff_eq_none.1 hn
        obtain ⟨hc, ho⟩ := concludePar_meta s s' p hl h
        refine ⟨by rw [hc, metaOf_anon hpn]; simp, ?_⟩
        unfold stackM
        rw [ho]
        conv => rhs; rw [last_split s.openPars p hl]
        simp [metaPs, metaOf_anon hpn]
      · have := pure_ok h; subst this; exact QuietM.refl s

theorem noteLabel_quietM (s s' : DC) (x : Xml) (k : String) (h : noteLabel s x k = .ok s') : QuietM s s' := by
  unfold noteLabel at h
  obtain ⟨_, _, h⟩ := bind_ok h
  split at h
  · have := pure_ok h; subst this; exact QuietM.refl s
  · obtain ⟨_, _, h⟩ := bind_ok h
    obtain ⟨s0, h0, h⟩ := bind_ok h
    have := pure_ok h; subst this
    exact (flushImplicit_quietM s s0 _ h0).trans ⟨rfl, rfl⟩

/-- opening a `w:p`: nothing is closed; the record pushed carries the element's identity, `getPStyle` of the element and,
below a cell, the table lineage -/
theorem openParagraph_meta (cfg : PartCfg) (s s' : DC) (x : Xml) (c : Bool) (i : Nat) (hi : x.id? = some i)
    (h : openParagraph cfg s x c = .ok s') :
    metaL s'.root = metaL s.root ∧ ∃ st lin, stackM s' = stackM s ++ [(i, st, lin)] ∧ getPStyle x = .ok st ∧
      (c = true → lin = tableLineage) := by
  unfold openParagraph at h
  obtain ⟨s1, h1, h⟩ := bind_ok h
  obtain ⟨bb, _, h⟩ := bind_ok h
  obtain ⟨s2, h2, h⟩ := bind_ok h
  have := pure_ok h; subst this
  obtain ⟨c1, p, ho, hp, hx⟩ := commencePar_meta cfg.html s s1 (some x) c h1
  obtain ⟨hst, hlin⟩ := hx x rfl
  have q2 := insertNewRun_quietM cfg.html _ s2 _ h2
  have q3 := modTop_quietM s2 (fun p => { p with listPos := (listPosition bb.1 x (x.id?.getD 0)).2 }) (fun _ => rfl)
  have hpe : p.elem = some i := by rw [hp]; simpa using hi
  refine ⟨?_, p.style, p.lineage, ?_, hst, hlin⟩
  · rw [q3.closed, q2.closed]; exact c1
  · rw [q3.stack, q2.stack]
    show metaPs s1.openPars = _
    rw [ho, metaPs_append]
    simp [stackM, metaPs, metaOf, hpe]

/-! ## cells -/

theorem metaL_set_row (c : Nest) (hc : metaPs (leafParsT c) = []) :
    ∀ (rows : List Nest) (ri : Nat) (cells : List Nest), rows[ri]? = some (.list cells) →
      metaL (rows.set ri (.list (cells ++ [c]))) = metaL rows
  | [], _, _, h => by simp at h
  | r :: rows, 0, cells, h => by
    simp only [List.getElem?_cons_zero, Option.some.injEq] at h
    subst h
    simp only [List.set_cons_zero, metaL_cons, leafParsT, leafParsL_append, metaPs_append]
    simp [leafParsL, hc]
  | r :: rows, ri+1, cells, h => by
    simp only [List.getElem?_cons_succ] at h
    simp only [List.set_cons_succ, metaL_cons, metaL_set_row c hc rows ri cells h]

theorem metaL_setRow (c : Nest) (hc : metaPs (leafParsT c) = []) :
    ∀ (root : List Nest) (ti ri : Nat) (cells : List Nest), getRow root ti ri = .ok cells →
      metaL (setRow root ti ri (cells ++ [c])) = metaL root
  | [], ti, ri, cells, h => by simp [getRow] at h
  | t :: root, 0, ri, cells, h => by
    unfold getRow at h
    simp only [List.getElem?_cons_zero] at h
    cases t with
    | par p => simp at h
    | list rows =>
      simp only at h
      cases hr : rows[ri]? with
      | none => simp [hr] at h
      | some r =>
        cases r with
        | par p => simp [hr] at h
        | list cs =>
          simp only [hr, pure, Except.pure, Except.ok.injEq] at h
          subst h
          have e : setRow (Nest.list rows :: root) 0 ri (cs ++ [c]) = Nest.list (rows.set ri (.list (cs ++ [c]))) :: root := by
            simp [setRow, List.modify]
          rw [e, metaL_cons, metaL_cons, leafParsT, leafParsT]
          have := metaL_set_row c hc rows ri cs hr
          unfold metaL at this; rw [this]
  | t :: root, ti+1, ri, cells, h => by
    have h' : getRow root ti ri = .ok cells := by
      unfold getRow at h ⊢
      simpa only [List.getElem?_cons_succ] using h
    have e : setRow (t :: root) (ti + 1) ri (cells ++ [c]) = t :: setRow root ti ri (cells ++ [c]) := by
      simp [setRow, List.modify]
    rw [e, metaL_cons, metaL_cons, metaL_setRow c hc root ti ri cells h']

mutual
theorem markCopy_meta : (x : Nest) → metaPs (leafParsT (markCopyT x)) = []
  | .par p => by simp [markCopyT, leafParsT, metaPs, metaOf]
  | .list xs => by simp only [markCopyT, leafParsT]; exact markCopyL_meta xs
theorem markCopyL_meta : (xs : List Nest) → metaPs (leafParsL (markCopyL xs)) = []
  | [] => by simp [markCopyL, leafParsL, metaPs]
  | x :: xs => by
    simp only [markCopyL, leafParsL, metaPs_append]
    rw [markCopy_meta x, markCopyL_meta xs]; rfl
end

theorem newCell_meta (dup : Bool) (thisTr : List Nest) : metaPs (leafParsT (newCell dup thisTr)) = [] := by
  unfold newCell
  split
  · exact markCopy_meta _
  · simp [leafParsT, leafParsL, metaPs, metaOf, emptyPar]

theorem spanStep_metaL (dup : Bool) (ti ri : Nat) (s s' : DC) (h : spanStep dup ti ri s = .ok s') : metaL s'.root = metaL s.root := by
  unfold spanStep at h
  obtain ⟨s1, h1, h⟩ := bind_ok h
  have f1 := (setCaret_frame s s1 _ _ h1).leaves
  obtain ⟨thisTr, hg, h⟩ := bind_ok h
  have := pure_ok h; subst this
  show metaL (setRow s1.root ti ri (thisTr ++ [newCell dup thisTr])) = _
  rw [metaL_setRow _ (newCell_meta dup thisTr) s1.root ti ri thisTr hg]
  unfold metaL; rw [f1]

theorem iterateM_metaL (f : DC → M DC) (hf : ∀ a b, f a = .ok b → metaL b.root = metaL a.root) :
    ∀ (n : Nat) (s s' : DC), iterateM f n s = .ok s' → metaL s'.root = metaL s.root
  | 0, s, s', h => by simp only [iterateM] at h; have := pure_ok h; subst this; rfl
  | n+1, s, s', h => by
    simp only [iterateM] at h
    obtain ⟨s1, h1, h⟩ := bind_ok h
    exact (iterateM_metaL f hf n s1 s' h).trans (hf s s1 h1)

theorem closeTableCell_metaL (dup : Bool) (s s' : DC) (tc : Xml) (hc : dup = false ∨ cellOK tc = true)
    (h : closeTableCell dup s tc = .ok s') : metaL s'.root = metaL s.root := by
  unfold closeTableCell at h
  split at h
  · have := pure_ok h; subst this; rfl
  · obtain ⟨pr, hpr, h⟩ := bind_ok h
    obtain ⟨_, _, h⟩ := bind_ok h
    split at h
    · have := pure_ok h; subst this; rfl
    · obtain ⟨s1, h1, h⟩ := bind_ok h
      obtain ⟨n, _, h⟩ := bind_ok h
      have e1 : s1 = s := by
        unfold vmergeStep at h1
        rcases hc with hc | hc
        · subst hc
          simp only [Bool.false_and, Bool.false_eq_true, if_false] at h1
          exact (pure_ok h1).symm
        · have hcont : isContinuation pr = false := by
            unfold cellOK at hc; rw [hpr] at hc; simpa using hc
          simp only [hcont, Bool.and_false, Bool.false_and, Bool.false_eq_true, if_false] at h1
          exact (pure_ok h1).symm
      rw [e1] at h
      exact iterateM_metaL (spanStep dup _ _) (fun a b hab => spanStep_metaL dup _ _ a b hab) n s s' h

/-! ## the steps -/

theorem openStep_quietM (cfg : PartCfg) (s s' : DC) (x : Xml) (c : Bool) (roots : List (List Nest)) (r : Bool)
    (hm : tagMember x.ptag ≠ some "PARAGRAPH") (h : openStep cfg s x c roots = .ok (s', r)) : QuietM s s' := by
  unfold openStep at h
  have wt : ∀ (X : M DC), (∀ t, X = .ok t → QuietM s t) → ∀ r, withTrue X = .ok (s', r) → QuietM s s' :=
    fun X hX r hr => hX s' (withTrue_ok hr).1
  have wf : ∀ (X : M DC), (∀ t, X = .ok t → QuietM s t) → ∀ r, withFalse X = .ok (s', r) → QuietM s s' :=
    fun X hX r hr => hX s' (withFalse_ok hr).1
  split at h
  · rename_i hm'; exact absurd hm' hm
  · exact wt _ (fun t ht => commenceRun_quietM cfg.html s t _ ht) r h
  · exact wf _ (fun t ht => by obtain ⟨id, _, ht⟩ := bind_ok ht; exact endRange_quietM s t id ht) r h
  · exact wf _ (fun t ht => by obtain ⟨id, _, ht⟩ := bind_ok ht; exact startRange_quietM s t id ht) r h
  · exact wt _ (fun t ht => addCode_quietM cfg.html s t _ ht) r h
  · exact wt _ (fun t ht => addCode_quietM cfg.html s t _ ht) r h
  · exact wf _ (fun t ht => insertNewRun_quietM cfg.html s t _ ht) r h
  · exact wt _ (fun t ht => addCode_quietM cfg.html s t _ ht) r h
  · exact wt _ (fun t ht => by
      obtain ⟨cde, _, ht⟩ := bind_ok ht
      split at ht
      · exact addCode_quietM cfg.html s t _ ht
      · have := pure_ok ht; subst this; exact QuietM.refl s) r h
  · exact wt _ (fun t ht => noteLabel_quietM s t x _ ht) r h
  · exact wt _ (fun t ht => noteLabel_quietM s t x _ ht) r h
  · exact wf _ (fun t ht => openHyperlink_preserves (P := fun a => QuietM s a) cfg
      (fun a id b ha hb => ha.trans (startRange_quietM a b id hb)) (fun a tx b ha hb => ha.trans (insertNewRun_quietM cfg.html a b tx hb))
      (fun a id b ha hb => ha.trans (endRange_quietM a b id hb)) s t x roots (QuietM.refl s) ht) r h
  · exact wt _ (fun t ht => by obtain ⟨tx, _, ht⟩ := bind_ok ht; exact insertNewRun_quietM cfg.html s t _ ht) r h
  · exact wt _ (fun t ht => by obtain ⟨tx, _, ht⟩ := bind_ok ht; exact insertNewRun_quietM cfg.html s t _ ht) r h
  · exact wt _ (fun t ht => by obtain ⟨tx, _, ht⟩ := bind_ok ht; exact insertNewRun_quietM cfg.html s t _ ht) r h
  · exact wt _ (fun t ht => by obtain ⟨tx, _, ht⟩ := bind_ok ht; exact insertNewRun_quietM cfg.html s t _ ht) r h
  · exact wt _ (fun t ht => by obtain ⟨tx, _, ht⟩ := bind_ok ht; exact insertOpt_quietM cfg.html s t _ ht) r h
  · exact wt _ (fun t ht => by obtain ⟨tx, _, ht⟩ := bind_ok ht; exact insertOpt_quietM cfg.html s t _ ht) r h
  · exact wt _ (fun t ht => insertOpt_quietM cfg.html s t _ ht) r h
  · exact wt _ (fun t ht => insertNewRun_quietM cfg.html s t _ ht) r h
  · have := pure_ok h; cases this; exact QuietM.refl s

theorem closeStepCore_quietM (cfg : PartCfg) (s s' : DC) (x : Xml)
    (hd : cfg.dup = false ∨ (tagMember x.ptag = some "TABLE_CELL" → cellOK x = true))
    (hm : tagMember x.ptag ≠ some "PARAGRAPH") (h : closeStepCore cfg s x = .ok s') : QuietM s s' := by
  unfold closeStepCore at h
  split at h
  · rename_i hm'; exact absurd hm' hm
  · exact commenceRun_quietM cfg.html s s' none h
  · rename_i hm'
    have hc : cfg.dup = false ∨ cellOK x = true := hd.imp id (fun f => f hm')
    exact ⟨closeTableCell_metaL cfg.dup s s' x hc h, by unfold stackM; rw [closeTableCell_openPars cfg.dup s s' x h]⟩
  · have := pure_ok h; subst this; exact QuietM.refl s

/-! ## the walk -/

mutual
/-- the `w:p` elements the walk descends to, each with the `inCell` flag it is walked with, in the order of the closing tags -/
def postX : Bool → Xml → List (Xml × Bool)
  | c, .elem i p t m a tx tl ks =>
    (if descends (.elem i p t m a tx tl ks) then postXL (c || isCellTag (.elem i p t m a tx tl ks)) ks else []) ++
      (if tagMember (Xml.elem i p t m a tx tl ks).ptag = some "PARAGRAPH" then [(.elem i p t m a tx tl ks, c)] else [])
  | _, _ => []
def postXL : Bool → List Xml → List (Xml × Bool)
  | _, [] => []
  | c, k :: ks => postX c k ++ postXL c ks
end

/-- the record `m` is the record of the source paragraph `y`, walked with the flag `c` -/
def RecOf (m : Meta) (yc : Xml × Bool) : Prop :=
  yc.1.id? = some m.1 ∧ getPStyle yc.1 = .ok m.2.1 ∧ (yc.2 = true → m.2.2 = tableLineage)

def AllRec (ms : List Meta) (ys : List (Xml × Bool)) : Prop := ∀ m ∈ ms, ∃ yc ∈ ys, RecOf m yc

theorem AllRec.nil (ys : List (Xml × Bool)) : AllRec [] ys := by intro m hm; cases hm

theorem AllRec.append {a b : List Meta} {x y : List (Xml × Bool)} (ha : AllRec a x) (hb : AllRec b y) : AllRec (a ++ b) (x ++ y) := by
  intro m hm
  rcases List.mem_append.1 hm with h | h
  · obtain ⟨yc, hy, r⟩ := ha m h; exact ⟨yc, List.mem_append.2 (Or.inl hy), r⟩
  · obtain ⟨yc, hy, r⟩ := hb m h; exact ⟨yc, List.mem_append.2 (Or.inr hy), r⟩

mutual
/-- **element, style and table lineage of every record, for every tree** -/
theorem walk_postM (cfg : PartCfg) (num : Dict Str (List NumAttr)) :
    (x : Xml) → (c : Bool) → (s s' : DC) → (cfg.dup = false ∨ vfree x = true) → Sole (elems s) → walk cfg num c s x = .ok s' →
      ∃ ms, metaL s'.root = metaL s.root ++ ms ∧ AllRec ms (postX c x) ∧ stackM s' = stackM s
  | .elem i p t m a tx tl ks, c, s, s', hv, hs, h => by
    have hwhole := h
    have hvk : cfg.dup = false ∨ vfreeL ks = true :=
      hv.imp id (fun f => by simp only [vfree, Bool.and_eq_true] at f; exact f.2)
    have hvc : cfg.dup = false ∨ (tagMember (Xml.elem i p t m a tx tl ks).ptag = some "TABLE_CELL" → cellOK (.elem i p t m a tx tl ks) = true) :=
      hv.imp id (fun f hm' => by
        simp only [vfree, Bool.and_eq_true, Bool.or_eq_true, bne_iff_ne, ne_eq] at f
        rcases f.1 with f1 | f1
        · exact absurd hm' f1
        · exact f1)
    simp only [walk] at h
    obtain ⟨s1, h1, h⟩ := bind_ok h
    unfold DC.setCaretOpen at h1
    obtain ⟨s0, h0, h1⟩ := bind_ok h1
    obtain ⟨hs0, ha0⟩ := flushImplicit_sole s s0 _ hs h0
    have f1 := setCaret_frame s0 s1 _ _ h1
    have q1 : QuietM s s1 := (flushImplicit_quietM s s0 _ h0).trans (quietM_of_frame f1)
    have q1i : Quiet s s1 := (flushImplicit_quiet s s0 _ h0).trans (quiet_of_frame f1)
    have e1 : elems s1 = elems s0 := by simp [elems, f1.openPars]
    obtain ⟨roots, _, h⟩ := bind_ok h
    obtain ⟨⟨s2, rec⟩, h2, h⟩ := bind_ok h
    have hrec := openStep_rec cfg s1 s2 _ c roots rec h2
    have hs2 : Sole (elems s2) := by
      rcases openStep_elems cfg s1 s2 _ c roots rec h2 with ⟨hm, e2⟩ | hsoft
      · have hpt := par_of_member _ hm
        have hdp := elemDepth_par (.elem i p t m a tx tl ks) hpt rfl
        have a1 : AllSome (elems s1) := by rw [e1]; exact ha0 (by rw [hdp]; rfl)
        refine Or.inl ?_
        rw [e2]
        intro e he
        rcases List.mem_append.1 he with he | he
        · exact a1 e he
        · simp at he; subst he; rfl
      · rcases hsoft with hsoft | hdrop
        · exact hsoft.sole (by rw [e1]; exact hs0)
        · rw [hdrop]; exact sole_dropLast (by rw [e1]; exact hs0)
    obtain ⟨s3, h3, h⟩ := bind_ok h
    have k3 : ∃ ms, metaL s3.root = metaL s2.root ++ ms ∧
        AllRec ms (if descends (.elem i p t m a tx tl ks) then postXL (c || isCellTag (.elem i p t m a tx tl ks)) ks else []) ∧
        stackM s3 = stackM s2 ∧ stackIds s3 = stackIds s2 ∧ Sole (elems s3) := by
      simp only at h3
      rw [hrec] at h3
      split at h3
      · rename_i hdsc
        obtain ⟨ms, e, ar, g⟩ := walkL_postM cfg num ks _ s2 s3 hvk hs2 h3
        exact ⟨ms, e, by rw [if_pos hdsc]; exact ar, g, (walkL_post cfg num ks _ s2 s3 hvk hs2 h3).2, walkL_sole cfg num ks _ s2 s3 hs2 h3⟩
      · have := pure_ok h3; subst this
        exact ⟨[], by simp, AllRec.nil _, rfl, rfl, hs2⟩
    obtain ⟨ms3, e3, ar3, g3, g3i, hs3⟩ := k3
    obtain ⟨s4, h4, h⟩ := bind_ok h
    obtain ⟨s3', h3', h4⟩ := closeStep_split cfg s3 s4 _ h4
    have hs3' := (flushImplicit_sole s3 s3' _ hs3 h3').1
    have q3' := flushImplicit_quietM s3 s3' _ h3'
    have q3'i := flushImplicit_quiet s3 s3' _ h3'
    have q5 := quietM_of_frame (setCaret_frame s4 s' _ _ h)
    by_cases hm : tagMember (Xml.elem i p t m a tx tl ks).ptag = some "PARAGRAPH"
    · have e : openStep cfg s1 (.elem i p t m a tx tl ks) c roots = withTrue (openParagraph cfg s1 (.elem i p t m a tx tl ks) c) := by
        unfold openStep; rw [hm]; rfl
      rw [e] at h2
      have h2' := (withTrue_ok h2).1
      obtain ⟨c2, st, lin, hst2, hgs, hlin⟩ := openParagraph_meta cfg s1 s2 _ c i rfl h2'
      have e2 := openParagraph_elems cfg s1 s2 _ c h2'
      have st2 : stackIds s2 = stackIds s1 ++ [i] := by simp [stackIds, e2, Xml.id?]
      have st3' : stackIds s3' = stackIds s1 ++ [i] := by rw [q3'i.stack, g3i, st2]
      obtain ⟨hlast, _⟩ := sole_last (elems s3') _ i hs3' st3'
      have hcore : closeStepCore cfg s3' (.elem i p t m a tx tl ks) = s3'.concludePar := by unfold closeStepCore; rw [hm]; rfl
      rw [hcore] at h4
      have hl : ∃ q, s3'.openPars.getLast? = some q ∧ q.elem = some i := by
        unfold elems at hlast
        rw [List.getLast?_map] at hlast
        cases hq : s3'.openPars.getLast? with
        | none => rw [hq] at hlast; cases hlast
        | some q => rw [hq] at hlast; exact ⟨q, rfl, Option.some.inj hlast⟩
      obtain ⟨q, hq, hqe⟩ := hl
      obtain ⟨c4, o4⟩ := concludePar_meta s3' s4 q hq h4
      -- the meta of the record on top of the stack is the one pushed when the paragraph was opened
      have hstk : stackM s3' = stackM s1 ++ [(i, st, lin)] := by rw [q3'.stack, g3, hst2]
      have hsplit : stackM s3' = metaPs s3'.openPars.dropLast ++ [(i, q.style, q.lineage)] := by
        unfold stackM
        conv => lhs; rw [last_split s3'.openPars q hq]
        rw [metaPs_append]
        simp [metaPs, metaOf, hqe]
      have hinj := List.append_inj' (hstk.symm.trans hsplit) rfl
      have hmq : metaOf q = some (i, st, lin) := by
        have := hinj.2
        simp only [List.cons.injEq, and_true] at this
        simp [metaOf, hqe, ← this]
      refine ⟨ms3 ++ [(i, st, lin)], ?_, ?_, ?_⟩
      · rw [q5.closed, c4, q3'.closed, e3, c2, q1.closed, hmq]
        simp [List.append_assoc]
      · simp only [postX, hm, if_true]
        exact AllRec.append ar3 (by
          intro m' hm'
          simp only [List.mem_singleton] at hm'
          subst hm'
          exact ⟨(.elem i p t m a tx tl ks, c), by simp, rfl, hgs, hlin⟩)
      · rw [q5.stack]
        unfold stackM
        rw [o4]
        show metaPs s3'.openPars.dropLast = _
        rw [← hinj.1, q1.stack]; rfl
    · have q2 := openStep_quietM cfg s1 s2 _ c roots rec hm h2
      have q4 := closeStepCore_quietM cfg s3' s4 _ hvc hm h4
      refine ⟨ms3, ?_, ?_, ?_⟩
      · rw [q5.closed, q4.closed, q3'.closed, e3, q2.closed, q1.closed]
      · simp only [postX, hm, if_false, List.append_nil]; exact ar3
      · rw [q5.stack, q4.stack, q3'.stack, g3, q2.stack, q1.stack]
  | .comment _ _, c, s, s', _, hs, h => by
    simp only [walk] at h; have := pure_ok h; subst this; exact ⟨[], by simp, AllRec.nil _, rfl⟩
  | .pi _, c, s, s', _, hs, h => by
    simp only [walk] at h; have := pure_ok h; subst this; exact ⟨[], by simp, AllRec.nil _, rfl⟩
theorem walkL_postM (cfg : PartCfg) (num : Dict Str (List NumAttr)) :
    (xs : List Xml) → (c : Bool) → (s s' : DC) → (cfg.dup = false ∨ vfreeL xs = true) → Sole (elems s) → walkL cfg num c s xs = .ok s' →
      ∃ ms, metaL s'.root = metaL s.root ++ ms ∧ AllRec ms (postXL c xs) ∧ stackM s' = stackM s
  | [], c, s, s', _, hs, h => by
    simp only [walkL] at h; have := pure_ok h; subst this; exact ⟨[], by simp, AllRec.nil _, rfl⟩
  | k :: ks, c, s, s', hv, hs, h => by
    have hv1 : cfg.dup = false ∨ vfree k = true := hv.imp id (fun f => by simp only [vfreeL, Bool.and_eq_true] at f; exact f.1)
    have hv2 : cfg.dup = false ∨ vfreeL ks = true := hv.imp id (fun f => by simp only [vfreeL, Bool.and_eq_true] at f; exact f.2)
    simp only [walkL] at h
    obtain ⟨s1, h1, h⟩ := bind_ok h
    obtain ⟨m1, e1, a1, g1⟩ := walk_postM cfg num k c s s1 hv1 hs h1
    obtain ⟨m2, e2, a2, g2⟩ := walkL_postM cfg num ks c s1 s' hv2 (walk_sole cfg num k c s s1 hs h1) h
    exact ⟨m1 ++ m2, by rw [e2, e1, List.append_assoc], by simp only [postXL]; exact AllRec.append a1 a2, g2.trans g1⟩
end

/-! ## whole parts -/

theorem finish_metaL (cfg : PartCfg) (s dc : DC) (hst : stackIds s = []) (h : finish cfg s = .ok dc) :
    metaL dc.root = metaL s.root := by
  unfold finish at h
  obtain ⟨s1, h1, h⟩ := bind_ok h
  have k1 : metaL s1.root = metaL s.root ∧ stackIds s1 = [] := by
    split at h1
    · have := pure_ok h1; subst this; exact ⟨rfl, hst⟩
    · refine ⟨(commencePar_meta cfg.html s s1 none false h1).1, ?_⟩
      have := commencePar_elems cfg.html s s1 none false h1
      unfold stackIds at hst ⊢
      rw [this]; simp [hst]
  cases hl : s1.openPars.getLast? with
  | none =>
    unfold DC.concludePar at h; simp only [hl] at h; have := pure_ok h; subst this; exact k1.1
  | some q =>
    obtain ⟨c4, _⟩ := concludePar_meta s1 dc q hl h
    have hq : q.elem = none :=
      none_of_stack_nil (elems s1) k1.2 q.elem (List.mem_map.2 ⟨q, List.mem_of_getLast? hl, rfl⟩)
    rw [c4, metaOf_anon hq, k1.1]; simp

/-- **C05 for every content part**: every record `new_depth_collector` returns that has an identity is the record of a
`w:p` element `y` of the part (one the walk descends to): it points at `y`, reports `y`'s paragraph style id, and reports the
lineage ("document", "tbl", "tr", "tc", "p") if `y` stands below a table cell.  The identities are, in order, `post root`
(C02).  Holds with `duplicate_merged_cells = False`, and with `True` for parts without vertical-merge continuations
(copies of merged cells have no identity and are not spoken about). -/
theorem C05_post_part (cfg : PartCfg) (num : Dict Str (List NumAttr)) (root : Xml) (c : Bool) (dc : DC)
    (hd : cfg.dup = false ∨ vfree root = true) (h : newDepthCollector cfg num root c = .ok dc) :
    AllRec (metaL dc.root) (postX c root) ∧ (metaL dc.root).map (·.1) = post root := by
  have hids := C02_post_part_gen cfg num root c dc hd h
  unfold newDepthCollector at h
  obtain ⟨s5, hw, hf⟩ := bind_ok h
  obtain ⟨ms, e, ar, _⟩ := walk_postM cfg num root c _ s5 hd (sole_init num) hw
  have hst : stackIds s5 = [] := by rw [(walk_post cfg num root c _ s5 hd (sole_init num) hw).2]; rfl
  have hfin := finish_metaL cfg s5 dc hst hf
  have e' : metaL s5.root = ms := by rw [e]; simp [metaL, metaPs, leafParsL]
  refine ⟨by rw [hfin, e']; exact ar, ?_⟩
  unfold metaL; rw [metaPs_ids]; exact hids

end D2P
