import D2P.Proofs.MergeTree
import D2P.Props.C13Total
/-!
# C13 — `merge_elems` never raises on a valid part

`File.root_element` merges before anything is extracted. `C13_merge_total`: for every tree whose
children (at every level) satisfy `validT` and which passes `goodTree`, `merge_elems` returns —
for every option setting and relationships table. (`C13_part_total` then speaks about the merged
tree; `validPkg` evaluates `validT` on it.) What can raise inside `merge_elems` is `_elem_key`,
through `get_html_formatting`; what has to be excluded is running out of the model's fuel, which
needs the height of a merged element to be bounded by the heights of the group it replaces.
-/
namespace D2P

theorem elemKey_total (cfg : PartCfg) (k : Xml) (hv : validT k = true) : ∃ key, elemKey cfg k = .ok key := by
  have hf : ∃ f, htmlFormatting cfg.html k = .ok f := by
    unfold htmlFormatting
    split
    · exact runFormatting_total cfg.html k hv
    · split
      · exact parFormatting_total cfg.html k hv
      · exact ⟨[], rfl⟩
  obtain ⟨f, hf⟩ := hf
  rw [elemKey_with]
  cases hb : fmtBranch k with
  | true => rw [elemKeyWith_fmt cfg k _ hb, hf]; exact ⟨_, rfl⟩
  | false =>
    rw [elemKeyWith_nofmt cfg k _ (pure []) hb]
    unfold elemKeyWith
    split
    · exact ⟨_, rfl⟩
    · simp only
      split
      · split
        · exact ⟨_, rfl⟩
        · split <;> exact ⟨_, rfl⟩
      · exact ⟨_, rfl⟩

/-! ## heights -/

theorem heightL_append : ∀ (a b : List Xml), Xml.heightL (a ++ b) = max (Xml.heightL a) (Xml.heightL b)
  | [], b => by simp [Xml.heightL]
  | x :: a, b => by simp only [List.cons_append, Xml.heightL, heightL_append a b, Nat.max_assoc]

theorem height_pos (x : Xml) : 1 ≤ x.height := by cases x <;> simp [Xml.height] <;> omega

theorem heightL_kids (x : Xml) : Xml.heightL x.kids + 1 ≤ x.height := by
  cases x <;> simp [Xml.height, Xml.kids, Xml.heightL] <;> omega

theorem heightL_flatMap_kids : ∀ (t : List Xml), Xml.heightL (t.flatMap Xml.kids) + 1 ≤ max 1 (Xml.heightL t)
  | [] => by simp [Xml.heightL]
  | r :: t => by
    have ih := heightL_flatMap_kids t
    have hr := heightL_kids r
    simp only [List.flatMap_cons, heightL_append, Xml.heightL]
    omega

theorem height_merged (a : Xml) (t : List Xml) (he : a.isElem = true) :
    (mergedOf (a :: t)).height ≤ max a.height (Xml.heightL t) := by
  cases a with
  | comment _ _ => simp [Xml.isElem] at he
  | pi _ => simp [Xml.isElem] at he
  | elem i p tg m at' tx tl ks =>
    have hmg : mergedOf (Xml.elem i p tg m at' tx tl ks :: t) =
        Xml.elem i p tg m at' (newTextOf (Xml.elem i p tg m at' tx tl ks :: t)) tl (ks ++ t.flatMap Xml.kids) := rfl
    rw [hmg]
    have := heightL_flatMap_kids t
    simp only [Xml.height, heightL_append]
    omega

theorem heightL_sublist {l' l : List Xml} (h : l'.Sublist l) : Xml.heightL l' ≤ Xml.heightL l := by
  induction h with
  | slnil => exact Nat.le_refl _
  | cons a _ ih => simp only [Xml.heightL]; omega
  | cons_cons a _ ih => simp only [Xml.heightL]; omega

/-! ## the children that are recursed into -/

/-- every child after the merge step is an original child, or the merged first element of a group of
original children; either way it satisfies `G`, its children are valid when the original children's
are, and it is no higher than the original list -/
theorem merged_children (cfg : PartCfg) (ks ks1 : List Xml) (gk : G ks) (h1 : mergeLevel cfg ks = .ok ks1) :
    ∀ k1 ∈ ks1, G [k1] ∧ k1.height ≤ Xml.heightL ks ∧ ((∀ k ∈ ks, validL k.kids = true) → validL k1.kids = true) := by
  have hn := G_nodup_kids ks gk
  have hpc := G_prefix ks gk
  obtain ⟨gs, hr, hf, hall, _, _, f3, _, _, _⟩ := merged_level cfg ks ks1 hn hpc h1
  have hsub : ∀ g0 ∈ gs, ∀ x ∈ g0, x ∈ ks ∧ hasContent x = true := by
    intro g0 hg0 x hx
    have : x ∈ ks.filter hasContent := by rw [← hf]; exact List.mem_flatten.2 ⟨g0, hg0, hx⟩
    exact List.mem_filter.1 this
  intro k1 hk1
  rcases f3 k1 hk1 with hin | ⟨g0, hg0, hmg, e⟩
  · exact ⟨G_sublist (List.singleton_sublist.2 hin) gk, height_le_heightL ks k1 hin, fun hv => hv k1 hin⟩
  · subst e
    obtain ⟨a0, t0, rfl, hom⟩ := runs_homog _ _ hr g0 hg0
    have hsl : (a0 :: t0).Sublist ks := by
      have h1 : (a0 :: t0).Sublist gs.flatten := List.sublist_flatten_of_mem hg0
      rw [hf] at h1
      exact h1.trans List.filter_sublist
    have hea : a0.isElem = true := hasContent_isElem a0 (hsub _ hg0 a0 (by simp)).2
    refine ⟨?_, ?_, ?_⟩
    · apply G_merged a0 t0 (G_sublist hsl gk) hea
      intro r hr' her
      have ka := hall a0 (List.mem_filter.2 (hsub _ hg0 a0 (by simp)))
      have kr := hall r (List.mem_filter.2 (hsub _ hg0 r (by simp [hr'])))
      rw [hom r hr'] at kr
      exact key_tag_eq cfg r a0 _ kr ka her hea
    · have := height_merged a0 t0 hea
      have h2 := heightL_sublist hsl
      simp only [Xml.heightL] at h2
      omega
    · intro hv
      cases a0 with
      | comment _ _ => simp [Xml.isElem] at hea
      | pi _ => simp [Xml.isElem] at hea
      | elem i p tg m at' tx tl kk =>
        have hmg' : (mergedOf (Xml.elem i p tg m at' tx tl kk :: t0)).kids = kk ++ t0.flatMap Xml.kids := rfl
        rw [hmg']
        have hva : validL kk = true := hv (Xml.elem i p tg m at' tx tl kk) (hsub _ hg0 (Xml.elem i p tg m at' tx tl kk) (List.mem_cons_self ..)).1
        have happ : ∀ (a b : List Xml), validL a = true → validL b = true → validL (a ++ b) = true := by
          intro a
          induction a with
          | nil => intro b _ hb; exact hb
          | cons x a ih =>
            intro b ha hb
            simp only [List.cons_append, validL, Bool.and_eq_true] at ha ⊢
            exact ⟨ha.1, ih b ha.2 hb⟩
        have hflat : ∀ (t : List Xml), (∀ r ∈ t, validL r.kids = true) → validL (t.flatMap Xml.kids) = true := by
          intro t
          induction t with
          | nil => intro _; rfl
          | cons r t ih =>
            intro h
            simp only [List.flatMap_cons]
            exact happ _ _ (h r (by simp)) (ih (fun r' hr' => h r' (by simp [hr'])))
        exact happ _ _ hva (hflat t0 (fun r hr' => hv r (hsub _ hg0 r (by simp [hr'])).1))

mutual
/-- valid at every node (what `validT` says about the nodes BELOW `x`) -/
theorem validL_kids_of_validT : ∀ (x : Xml), validT x = true → validL x.kids = true
  | .elem i p t m a tx tl ks, h => by simp only [validT, Bool.and_eq_true] at h; exact h.2
  | .comment _ _, _ => rfl
  | .pi _, _ => rfl
end

theorem mapM'_exists (F : Xml → M Xml) : ∀ (l : List Xml), (∀ a ∈ l, ∃ b, F a = .ok b) → ∃ l', mapM' F l = .ok l'
  | [], _ => ⟨[], rfl⟩
  | x :: l, h => by
    obtain ⟨y, hy⟩ := h x (by simp)
    obtain ⟨ys, hys⟩ := mapM'_exists F l (fun a ha => h a (by simp [ha]))
    exact ⟨y :: ys, by simp only [mapM', hy, ok_bind, hys]; rfl⟩

/-- **C13: the merge never raises.** `validL x.kids` is deep: every child is `validT`, hence so is
everything below; the children of a merged element are original subtrees, so the hypothesis travels
down the recursion. -/
theorem mergeFuel_total (cfg : PartCfg) : ∀ (f : Nat) (x : Xml), G [x] → validL x.kids = true →
    x.height < f → ∃ y, mergeFuel cfg f x = .ok y := by
  intro f
  induction f with
  | zero => intro x _ _ h; omega
  | succ f ih =>
    intro x g hv hh
    cases x with
    | comment _ _ => exact ⟨_, rfl⟩
    | pi _ => exact ⟨_, rfl⟩
    | elem i p t m a tx tl ks =>
      have gk : G ks := G_kids _ g
      have hvk : validL ks = true := hv
      -- the merge step returns
      have hkeyed : ∃ ks1, mergeLevel cfg ks = .ok ks1 := by
        unfold mergeLevel
        rw [keyed_of_ok cfg _ (fun k hk => elemKey_total cfg k (validL_mem ks hvk k (List.mem_filter.1 hk).1))]
        exact ⟨_, rfl⟩
      obtain ⟨ks1, h1⟩ := hkeyed
      have hch := merged_children cfg ks ks1 gk h1
      have hbelow : ∀ k ∈ ks, validL k.kids = true := fun k hk => validL_kids_of_validT k (validL_mem ks hvk k hk)
      simp only [mergeFuel, h1, ok_bind]
      have hrec : ∀ k1 ∈ ks1, ∃ y, mergeFuel cfg f k1 = .ok y := by
        intro k1 hk1
        obtain ⟨g1, hh1, hv1⟩ := hch k1 hk1
        apply ih k1 g1 (hv1 hbelow)
        simp only [Xml.height] at hh; omega
      obtain ⟨ks2, h2⟩ := mapM'_exists _ ks1 hrec
      exact ⟨_, by rw [h2]; rfl⟩

/-- **C13: `merge_elems` returns for every valid tree that passes `goodTree`.** -/
theorem C13_merge_total (cfg : PartCfg) (x : Xml) (hg : goodTree x = true) (hv : validT x = true) :
    ∃ y, mergeElems cfg x = .ok y := by
  unfold mergeElems
  exact mergeFuel_total cfg _ x (good_of_goodTree x hg) (validL_kids_of_validT x hv) (Nat.lt_succ_self _)

end D2P
