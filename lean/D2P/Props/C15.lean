import D2P.Model.Lifecycle
/-!
# C15 — `close()` and `with` blocks release the archive, for every usage history

All statements quantify over every operation sequence (no length bound), every package
(through the arbitrary `needs` function) and both ways of leaving a `with` block.
-/
namespace D2P

/-- invariant: a closed reader has no open handle -/
def LInv (s : LState) : Prop := s.closed = true → s.zipOpen = false

theorem fetch_closed (s s' : LState) (us : List UnitKey) (h : fetch s us = some s') :
    s'.closed = s.closed ∧ (s.closed = true → s' = s) := by
  unfold fetch at h
  split at h
  · cases h; exact ⟨rfl, fun _ => rfl⟩
  · split at h
    · cases h
    · rename_i hc; cases h; exact ⟨rfl, fun hcl => absurd hcl hc⟩

theorem step_inv (needs : Needs) (allRaw : List UnitKey) (s : LState) (op : Op) (hs : LInv s) :
    LInv (step needs allRaw s op).1 := by
  cases op with
  | read a =>
    simp only [step]
    split
    · rename_i s' hf
      have := fetch_closed s s' _ hf
      intro hc
      simp only at hc
      have hcs : s.closed = true := by rw [← this.1]; exact hc
      have := this.2 hcs; subst this
      exact hs hcs
    · exact hs
  | save =>
    simp only [step]
    split
    · rename_i s' hf
      have := fetch_closed s s' _ hf
      intro hc
      have hcs : s.closed = true := by rw [← this.1]; exact hc
      have := this.2 hcs; subst this
      exact hs hcs
    · exact hs
  | close => intro _; rfl
  | withExit b => intro _; rfl

/-- **C15: once closed, always closed; the archive is never reopened.** -/
theorem C15_never_reopened (needs : Needs) (allRaw : List UnitKey) :
    ∀ (ops : List Op) (s : LState), s.closed = true → s.zipOpen = false →
      (run needs allRaw s ops).1.closed = true ∧ (run needs allRaw s ops).1.zipOpen = false := by
  intro ops
  induction ops with
  | nil => intro s hc hz; exact ⟨hc, hz⟩
  | cons op ops ih =>
    intro s hc hz
    simp only [run]
    apply ih
    · cases op with
      | read a =>
        simp only [step]; split
        · rename_i s' hf; rw [(fetch_closed s s' _ hf).1]; exact hc
        · exact hc
      | save =>
        simp only [step]; split
        · rename_i s' hf; rw [(fetch_closed s s' _ hf).1]; exact hc
        · exact hc
      | close => rfl
      | withExit b => rfl
    · exact step_inv needs allRaw s op (fun _ => hz) (by
        cases op with
        | read a =>
          simp only [step]; split
          · rename_i s' hf; rw [(fetch_closed s s' _ hf).1]; exact hc
          · exact hc
        | save =>
          simp only [step]; split
          · rename_i s' hf; rw [(fetch_closed s s' _ hf).1]; exact hc
          · exact hc
        | close => rfl
        | withExit b => rfl)

/-- **C15: before closing, every read returns the value a fresh object returns.** -/
theorem C15_before_close (needs : Needs) (allRaw : List UnitKey) (s : LState) (a : Nat) (h : s.closed = false) :
    (step needs allRaw s (.read a)).2 = .value a := by
  simp only [step]
  have : ∃ s', fetch s (needs s.collectors a).units = some s' := by
    unfold fetch; split
    · exact ⟨_, rfl⟩
    · simp [h]
  obtain ⟨s', hs'⟩ := this
  simp [hs']

/-- **C15: after closing, a read returns that same value or raises `ValueError` — nothing else.** -/
theorem C15_after_close (needs : Needs) (allRaw : List UnitKey) (s : LState) (a : Nat) :
    (step needs allRaw s (.read a)).2 = .value a ∨ (step needs allRaw s (.read a)).2 = .valueError := by
  simp only [step]
  split
  · left; rfl
  · right; rfl

/-- **C15: a failed read after close changes nothing** (so later reads are decided by what was
cached before). -/
theorem C15_failed_read_is_noop (needs : Needs) (allRaw : List UnitKey) (s : LState) (a : Nat)
    (h : (step needs allRaw s (.read a)).2 = .valueError) : (step needs allRaw s (.read a)).1 = s := by
  simp only [step] at h ⊢
  split
  · rename_i s' hf; simp [hf] at h
  · rfl

/-- **C15: closing again is harmless.** -/
theorem C15_close_idempotent (needs : Needs) (allRaw : List UnitKey) (s : LState) :
    (step needs allRaw (step needs allRaw s .close).1 .close).1 = (step needs allRaw s .close).1 := rfl

/-- **C15: leaving a `with` block closes exactly as `close()` does, normally or by exception,
and the exception propagates** (`__exit__` returns a falsy value). -/
theorem C15_exit (needs : Needs) (allRaw : List UnitKey) (s : LState) (b : Bool) :
    (step needs allRaw s (.withExit b)).1 = (step needs allRaw s .close).1 ∧
    (step needs allRaw s (.withExit b)).2 = .done true := ⟨rfl, rfl⟩

/-- **C15: no handle opened by the reader survives `close`**, whatever happened before and after. -/
theorem C15_no_leak (needs : Needs) (allRaw : List UnitKey) (before after : List Op) :
    (run needs allRaw (step needs allRaw (run needs allRaw {} before).1 .close).1 after).1.zipOpen = false :=
  (C15_never_reopened needs allRaw after _ rfl rfl).2

end D2P
