import D2P.Model.Save
import D2P.Proofs.Dict
/-!
# C16 — saving round-trips: member names and untouched members

* `C16_names`: the saved archive has exactly the input's member names (as sets), and when the
  input's names are distinct, each exactly once;
* `C16_untouched`: every member that is neither a content part nor a relationships part is
  copied with the content the input archive has for that name.
Re-extraction of the saved archive (`C16_extract_same`) needs merge idempotence (C06) and is
still to do; zip validity and XML serialisation are observed by the harness.
-/
namespace D2P

theorem copyBut_names (a : Archive) (excl : List Str) : ∀ (ns : List Str) (out : List (Str × Member)),
    copyBut a excl ns = .ok out → out.map (·.1) = ns.filter (fun n => !excl.contains n) := by
  intro ns
  induction ns with
  | nil => intro out h; simp only [copyBut] at h; have := pure_ok h; subst this; rfl
  | cons n ns ih =>
    intro out h
    simp only [copyBut] at h
    split at h
    · rename_i hc
      rw [List.filter_cons]
      simp only [hc, Bool.not_true, Bool.false_eq_true, if_false]
      exact ih out h
    · rename_i hc
      obtain ⟨m, _, h⟩ := bind_ok h
      obtain ⟨rest, hr, h⟩ := bind_ok h
      have := pure_ok h; subst this
      have hc' : excl.contains n = false := by simpa using hc
      rw [List.filter_cons]
      simp only [hc', Bool.not_false, if_true, List.map_cons, ih rest hr]

theorem copyBut_content (a : Archive) (excl : List Str) : ∀ (ns : List Str) (out : List (Str × Member)),
    copyBut a excl ns = .ok out → ∀ p ∈ out, a.read p.1 = .ok p.2 ∧ excl.contains p.1 = false := by
  intro ns
  induction ns with
  | nil => intro out h p hp; simp only [copyBut] at h; have := pure_ok h; subst this; simp at hp
  | cons n ns ih =>
    intro out h p hp
    simp only [copyBut] at h
    split at h
    · exact ih out h p hp
    · rename_i hc
      obtain ⟨m, hm, h⟩ := bind_ok h
      obtain ⟨rest, hr, h⟩ := bind_ok h
      have := pure_ok h; subst this
      rcases List.mem_cons.1 hp with rfl | hp
      · exact ⟨hm, by simpa using hc⟩
      · exact ih rest hr p hp

theorem writeRoots_names (o : Opts) (a : Archive) (files : List Rel) : ∀ (ts : List (Str × Rel)) (out : List (Str × Member)),
    writeRoots o a files ts = .ok out → out.map (·.1) = ts.map (·.1) := by
  intro ts
  induction ts with
  | nil => intro out h; simp only [writeRoots] at h; have := pure_ok h; subst this; rfl
  | cons t ts ih =>
    obtain ⟨path, r⟩ := t
    intro out h
    simp only [writeRoots] at h
    obtain ⟨cr, _, h⟩ := bind_ok h
    obtain ⟨ms, hms, h⟩ := bind_ok h
    have := pure_ok h; subst this
    simp [ih ms hms]

theorem addFirst_keys (d : Dict Str Rel) (f : Rel) (k : Str) :
    k ∈ (addFirst d f).keys ↔ (k ∈ d.keys ∨ k = f.path) := by
  unfold addFirst Dict.keys
  split
  · rename_i hany
    constructor
    · intro h; exact Or.inl h
    · rintro (h | h)
      · exact h
      · subst h
        obtain ⟨kv, hkv, he⟩ := List.any_eq_true.1 hany
        have : kv.1 = f.path := by simpa using he
        exact List.mem_map.2 ⟨kv, hkv, this⟩
  · simp [List.map_append]

/-- keys of the dict built by `addFirst` are members of the key list that was offered -/
theorem foldl_set_keys (fs : List Rel) : ∀ (d : Dict Str Rel) (k : Str),
    k ∈ (fs.foldl addFirst d).keys ↔ (k ∈ d.keys ∨ k ∈ fs.map Rel.path) := by
  induction fs with
  | nil => intro d k; simp
  | cons f fs ih =>
    intro d k
    simp only [List.foldl_cons, ih, List.map_cons, List.mem_cons, addFirst_keys]
    constructor
    · rintro ((h | h) | h)
      · exact Or.inl h
      · exact Or.inr (Or.inl h)
      · exact Or.inr (Or.inr h)
    · rintro (h | h | h)
      · exact Or.inl (Or.inl h)
      · exact Or.inl (Or.inr h)
      · exact Or.inr h

theorem addFirst_nodup (d : Dict Str Rel) (f : Rel) (h : d.keys.Nodup) : (addFirst d f).keys.Nodup := by
  unfold addFirst
  split
  · exact h
  · rename_i hany
    unfold Dict.keys at h ⊢
    rw [List.map_append, List.nodup_append]
    refine ⟨h, by simp, ?_⟩
    intro x hx y hy
    simp at hy; subst hy
    intro hxy; subst hxy
    apply hany
    obtain ⟨kv, hkv, hk⟩ := List.mem_map.1 hx
    exact List.any_eq_true.2 ⟨kv, hkv, by simpa using hk⟩

theorem foldl_addFirst_nodup (fs : List Rel) : ∀ (d : Dict Str Rel), d.keys.Nodup → (fs.foldl addFirst d).keys.Nodup := by
  induction fs with
  | nil => intro d h; exact h
  | cons f fs ih => intro d h; exact ih _ (addFirst_nodup d f h)

/-- **C16: every rewritten member is written once.** -/
theorem C16_written_once (a : Archive) (files : List Rel) : (saveTargets a files).keys.Nodup := by
  unfold saveTargets
  exact foldl_addFirst_nodup _ [] (by simp [Dict.keys])

/-- **C16: member names.** A name is in the saved archive iff it is in the input archive. -/
theorem C16_names (o : Opts) (a out : Archive) (h : save o a = .ok out) :
    ∀ n, n ∈ out.namelist ↔ n ∈ a.namelist := by
  unfold save at h
  obtain ⟨files, _, h⟩ := bind_ok h
  obtain ⟨copied, hc, h⟩ := bind_ok h
  obtain ⟨written, hw, h⟩ := bind_ok h
  have := pure_ok h; subst this
  intro n
  have e1 := copyBut_names a _ _ copied hc
  have e2 := writeRoots_names o a files _ written hw
  simp only [Archive.namelist, List.map_append, List.mem_append]
  have e1' : List.map (fun x => x.1) copied = _ := e1
  have e2' : List.map (fun x => x.1) written = _ := e2
  rw [e1', e2']
  have hkeys : ∀ k, k ∈ (saveTargets a files).keys → k ∈ a.namelist := by
    intro k hk
    unfold saveTargets at hk
    rcases (foldl_set_keys _ [] k).1 hk with h0 | h0
    · simp [Dict.keys] at h0
    · obtain ⟨f, hf, rfl⟩ := List.mem_map.1 h0
      have := (List.mem_filter.1 hf).2
      simp only [Bool.and_eq_true] at this
      simpa using this.2
  constructor
  · rintro (h1 | h1)
    · exact (List.mem_filter.1 h1).1
    · exact hkeys n h1
  · intro hn
    by_cases hx : (saveTargets a files).keys.contains n
    · right; exact List.contains_iff_mem.1 hx
    · left; exact List.mem_filter.2 ⟨hn, by simpa using hx⟩

/-- **C16: untouched members.** A member that is not rewritten is copied with the content the
input archive returns for its name. -/
theorem C16_untouched (a : Archive) (files : List Rel) (copied : List (Str × Member))
    (h : copyBut a (saveTargets a files).keys a.namelist = .ok copied) :
    ∀ p ∈ copied, a.read p.1 = .ok p.2 := fun p hp => (copyBut_content a _ _ copied h p hp).1

end D2P

namespace D2P

/-! ## reading the saved archive back -/

/-- in an association list with distinct keys, the key determines the entry -/
theorem id_inj_pairs {β : Type} : ∀ (d : List (Str × β)), (d.map (·.1)).Nodup → ∀ x ∈ d, ∀ y ∈ d, x.1 = y.1 → x = y := by
  intro d
  induction d with
  | nil => intro _ x hx; simp at hx
  | cons z d ih =>
    intro hn x hx y hy hxy
    simp only [List.map_cons, List.nodup_cons] at hn
    rcases List.mem_cons.1 hx with ex | hx' <;> rcases List.mem_cons.1 hy with ey | hy'
    · rw [ex, ey]
    · exfalso; apply hn.1; rw [← ex, hxy]; exact List.mem_map.2 ⟨y, hy', rfl⟩
    · exfalso; apply hn.1; rw [← ey, ← hxy]; exact List.mem_map.2 ⟨x, hx', rfl⟩
    · exact ih hn.2 x hx' y hy' hxy

theorem writeRoots_spec (o : Opts) (a : Archive) (files : List Rel) : ∀ (ts : List (Str × Rel)) (out : List (Str × Member)),
    writeRoots o a files ts = .ok out →
    ∀ p m, (p, m) ∈ out → ∃ r cr, (p, r) ∈ ts ∧ rootElement o a files r = .ok cr ∧ m = Member.xml cr.2 := by
  intro ts
  induction ts with
  | nil => intro out h p m hm; simp only [writeRoots] at h; have := pure_ok h; subst this; simp at hm
  | cons t ts ih =>
    obtain ⟨path, r⟩ := t
    intro out h p m hm
    simp only [writeRoots] at h
    obtain ⟨cr, hcr, h⟩ := bind_ok h
    obtain ⟨ms, hms, h⟩ := bind_ok h
    have := pure_ok h; subst this
    rcases List.mem_cons.1 hm with e | hm
    · cases e; exact ⟨r, cr, by simp, hcr, rfl⟩
    · obtain ⟨r', cr', h1, h2, h3⟩ := ih ms hms p m hm
      exact ⟨r', cr', by simp [h1], h2, h3⟩

/-- `zipf.read` of a name: any member carrying that name, when all members of that name agree -/
theorem read_of_agree (ms : List (Str × Member)) (n : Str) (m : Member)
    (hex : ∃ x ∈ ms, x.1 = n) (hag : ∀ x ∈ ms, x.1 = n → x.2 = m) :
    (Archive.mk ms).read n = .ok m := by
  unfold Archive.read
  cases hf : ms.reverse.find? (fun x => x.1 == n) with
  | none =>
    obtain ⟨x, hx, hxn⟩ := hex
    have := List.find?_eq_none.1 hf x (List.mem_reverse.2 hx)
    simp [hxn] at this
  | some x =>
    have hx := List.mem_reverse.1 (List.mem_of_find?_eq_some hf)
    have hxn : x.1 = n := by simpa using List.find?_some hf
    simp only [pure, Except.pure, hag x hx hxn]

/-- **C16: a rewritten member, read back.** The saved archive holds, under the name of every content
or relationships part, exactly the element tree the reader exposes for it (`File.root_element`). -/
theorem C16_read_back_target (o : Opts) (a out : Archive) (files : List Rel) (hf : a.files = .ok files)
    (h : save o a = .ok out) (p : Str) (r : Rel) (hp : (p, r) ∈ saveTargets a files) :
    ∃ cr, rootElement o a files r = .ok cr ∧ out.read p = .ok (Member.xml cr.2) := by
  unfold save at h
  rw [hf] at h
  simp only [ok_bind] at h
  obtain ⟨copied, hc, h⟩ := bind_ok h
  obtain ⟨written, hw, h⟩ := bind_ok h
  have := pure_ok h; subst this
  have hnd := C16_written_once a files
  have hwn := writeRoots_names o a files _ written hw
  -- the entry of `p` among the written members
  have hpk : p ∈ (saveTargets a files).keys := List.mem_map.2 ⟨(p, r), hp, rfl⟩
  have hpw : p ∈ written.map (·.1) := by rw [hwn]; exact hpk
  obtain ⟨x, hx, hxp⟩ := List.mem_map.1 hpw
  obtain ⟨r', cr, hr', hcr, hm⟩ := writeRoots_spec o a files _ written hw x.1 x.2 hx
  -- keys are distinct: the Rel recorded for `p` is `r`
  have hrr : r' = r := by
    have hk : ((saveTargets a files).map (·.1)).Nodup := hnd
    have := id_inj_pairs (saveTargets a files) hk (x.1, r') hr' (p, r) hp (by simpa using hxp)
    exact (Prod.mk.inj this).2
  subst hrr
  refine ⟨cr, hcr, ?_⟩
  apply read_of_agree
  · exact ⟨x, by simp [hx], hxp⟩
  · intro y hy hyn
    rcases List.mem_append.1 hy with hy | hy
    · -- not among the copied ones
      have := (copyBut_content a _ _ copied hc y hy).2
      rw [hyn] at this
      have : ¬ p ∈ (saveTargets a files).keys := by simpa using this
      exact absurd hpk this
    · obtain ⟨r2, cr2, hr2, hcr2, hm2⟩ := writeRoots_spec o a files _ written hw y.1 y.2 hy
      have hk : ((saveTargets a files).map (·.1)).Nodup := hnd
      have := id_inj_pairs (saveTargets a files) hk (y.1, r2) hr2 (p, r') hp (by simpa using hyn)
      have e2 : r2 = r' := (Prod.mk.inj this).2
      subst e2
      rw [hcr] at hcr2; cases hcr2
      exact hm2

/-- **C16: an untouched member, read back.** Every other name of the input reads, from the saved
archive, as it reads from the input. -/
theorem C16_read_back_other (o : Opts) (a out : Archive) (files : List Rel) (hf : a.files = .ok files)
    (h : save o a = .ok out) (n : Str) (hn : n ∈ a.namelist) (hnt : n ∉ (saveTargets a files).keys) :
    out.read n = a.read n := by
  unfold save at h
  rw [hf] at h
  simp only [ok_bind] at h
  obtain ⟨copied, hc, h⟩ := bind_ok h
  obtain ⟨written, hw, h⟩ := bind_ok h
  have := pure_ok h; subst this
  have hcn := copyBut_names a _ _ copied hc
  have hwn := writeRoots_names o a files _ written hw
  have hnc : n ∈ copied.map (·.1) := by
    rw [hcn]; exact List.mem_filter.2 ⟨hn, by simpa using hnt⟩
  obtain ⟨x, hx, hxn⟩ := List.mem_map.1 hnc
  have hxr := (copyBut_content a _ _ copied hc x hx).1
  rw [hxn] at hxr
  rw [hxr]
  apply read_of_agree
  · exact ⟨x, by simp [hx], hxn⟩
  · intro y hy hyn
    rcases List.mem_append.1 hy with hy | hy
    · have := (copyBut_content a _ _ copied hc y hy).1
      rw [hyn, hxr] at this
      exact (Except.ok.inj this).symm
    · have : n ∈ written.map (·.1) := List.mem_map.2 ⟨y, hy, hyn⟩
      rw [hwn] at this
      exact absurd this hnt

end D2P
