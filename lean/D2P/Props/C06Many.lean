import D2P.Props.C06
import D2P.Props.Examples
/-!
# C06 — any number of pieces: one merge step joins them all

`C06_split_pair` is the case of two pieces.  `C06_split_many`: a first element followed by ANY list
of siblings each of which is either content-free markup (proofing marks, bookmarks, revision
marks …) or a further piece with the same merge key (same recognised formatting / same link target
and anchor) — in any order, any number — is merged by one `mergeLevel` into the first element, which
receives the children of all pieces in document order, while the content-free siblings stay where
they are, in order.
-/
namespace D2P

/-- siblings after the first piece: content-free markup, or further pieces with key `k` -/
def PiecesOrNoise (cfg : PartCfg) (k : ElemKey) (tail : List Xml) : Prop :=
  ∀ x ∈ tail, hasContent x = false ∨ (hasContent x = true ∧ elemKey cfg x = .ok k)

def pieces (tail : List Xml) : List Xml := tail.filter hasContent

theorem keyed_const (cfg : PartCfg) (k : ElemKey) : ∀ (xs : List Xml), (∀ x ∈ xs, elemKey cfg x = .ok k) →
    keyed cfg xs = .ok (xs.map fun x => (k, x))
  | [], _ => rfl
  | x :: xs, h => by
    simp only [keyed, h x (by simp), ok_bind, keyed_const cfg k xs (fun y hy => h y (by simp [hy]))]
    rfl

theorem groupAdj_step (k k' : ElemKey) (a b : Xml) (rest : List (ElemKey × Xml)) :
    groupAdj ((k, a) :: (k', b) :: rest) =
      (match groupAdj ((k', b) :: rest) with
       | g :: gs => if k == k' then (a :: g) :: gs else [a] :: g :: gs
       | [] => [[a]]) := by
  conv => lhs; unfold groupAdj
  cases groupAdj ((k', b) :: rest) <;> rfl

theorem groupAdj_const (k : ElemKey) : ∀ (x : Xml) (xs : List Xml),
    groupAdj ((x :: xs).map fun y => (k, y)) = [x :: xs]
  | x, [] => by simp [groupAdj]
  | x, y :: ys => by
    have ih := groupAdj_const k y ys
    simp only [List.map_cons] at ih ⊢
    rw [groupAdj_step, ih]
    simp

/-- what one merge step makes of the children list -/
def mergedKids (r1 : Xml) (tail : List Xml) : List Xml :=
  setTextKids r1 r1.text? (r1.kids ++ (pieces tail).flatMap Xml.kids) :: tail.filter (fun x => !hasContent x)

theorem C06_split_many (cfg : PartCfg) (k : ElemKey) (r1 : Xml) (tail : List Xml) (i1 : Nat)
    (h1 : hasContent r1 = true) (k1 : elemKey cfg r1 = .ok k) (hm : isMergeable r1 = true) (ht : isTextLike r1 = false)
    (id1 : r1.id? = some i1) (htail : PiecesOrNoise cfg k tail) (hne : pieces tail ≠ [])
    -- element identities: pieces carry identities, all different from each other's, the first's and the markup's
    (hid : ∀ x ∈ pieces tail, ∃ i, x.id? = some i ∧ i ≠ i1)
    (hnoise : ∀ x ∈ tail, hasContent x = false → x.id? ≠ some i1 ∧ ∀ y ∈ pieces tail, x.id? ≠ y.id?) :
    mergeLevel cfg (r1 :: tail) = .ok (mergedKids r1 tail) := by
  unfold mergeLevel
  have hf : (r1 :: tail).filter hasContent = r1 :: pieces tail := by simp [List.filter_cons, h1, pieces]
  have hk : ∀ x ∈ r1 :: pieces tail, elemKey cfg x = .ok k := by
    intro x hx
    rcases List.mem_cons.1 hx with rfl | hx
    · exact k1
    · have hx' := List.mem_filter.1 hx
      rcases htail x hx'.1 with h | h
      · rw [h] at hx'; exact absurd hx'.2 (by decide)
      · exact h.2
  rw [hf, keyed_const cfg k _ hk]
  simp only [ok_bind]
  show (Except.ok ((groupAdj ((r1 :: pieces tail).map fun y => (k, y))).foldl applyGroup (r1 :: tail)) : M (List Xml)) = _
  rw [groupAdj_const]
  simp only [List.foldl_cons, List.foldl_nil]
  congr 1
  unfold applyGroup
  have hre : (pieces tail).isEmpty = false := by cases h : pieces tail with
    | nil => exact absurd h hne
    | cons _ _ => rfl
  simp only [hre, Bool.false_or, hm, Bool.not_true, Bool.false_eq_true, if_false, ht]
  -- the first element: merged; it is not one of the removed ones
  have hnot1 : ((pieces tail).filterMap Xml.id?).contains i1 = false := by
    rw [List.contains_eq_mem, decide_eq_false_iff_not]
    intro hmem
    obtain ⟨x, hx, hxi⟩ := List.mem_filterMap.1 hmem
    obtain ⟨i, hi, hne'⟩ := hid x hx
    rw [hi] at hxi; cases hxi; exact hne' rfl
  simp only [List.filterMap_cons, id1, hnot1, Bool.false_eq_true, if_false, beq_self_eq_true, if_true, mergedKids]
  congr 1
  -- the tail: pieces vanish, markup stays
  have key : ∀ (ts : List Xml), (∀ x ∈ ts, x ∈ tail) →
      ts.filterMap (fun k_ => match k_.id? with
        | some i => if ((pieces tail).filterMap Xml.id?).contains i = true then none
                    else if (some i == some i1) = true then some (setTextKids k_ r1.text? (k_.kids ++ (pieces tail).flatMap Xml.kids)) else some k_
        | none => some k_) = ts.filter (fun x => !hasContent x) := by
    intro ts
    induction ts with
    | nil => intro _; rfl
    | cons x xs ih =>
      intro hsub
      have hx : x ∈ tail := hsub x (by simp)
      have ihx := ih (fun y hy => hsub y (by simp [hy]))
      rcases htail x hx with hc | hc
      · -- markup
        obtain ⟨hn1, hn2⟩ := hnoise x hx hc
        simp only [List.filterMap_cons, List.filter_cons, hc, Bool.not_false, if_true]
        cases hxi : x.id? with
        | none => simp only [ihx]
        | some i =>
          have c1 : ((pieces tail).filterMap Xml.id?).contains i = false := by
            rw [List.contains_eq_mem, decide_eq_false_iff_not]
            intro hmem
            obtain ⟨y, hy, hyi⟩ := List.mem_filterMap.1 hmem
            exact hn2 y hy (by rw [hxi, hyi])
          have c2 : (some i == some i1) = false := by
            simp only [beq_eq_false_iff_ne, ne_eq, Option.some.injEq]
            intro e; exact hn1 (by rw [hxi, e])
          simp only [c1, c2, Bool.false_eq_true, if_false, ihx]
      · -- a piece
        have hxp : x ∈ pieces tail := List.mem_filter.2 ⟨hx, hc.1⟩
        obtain ⟨i, hi, _⟩ := hid x hxp
        have c1 : ((pieces tail).filterMap Xml.id?).contains i = true := by
          rw [List.contains_eq_mem, decide_eq_true_eq]
          exact List.mem_filterMap.2 ⟨x, hxp, hi⟩
        simp only [List.filterMap_cons, List.filter_cons, hc.1, Bool.not_true, Bool.false_eq_true, if_false, hi, c1, if_true, ihx]
  exact key tail (fun x hx => hx)

namespace Ex
/-- non-vacuity: three pieces of one run, proofing mark and bookmark in between -/
def pieces3 : List Xml :=
  [r 1 [t 2 "pla"], el 3 "proofErr" [] none [], r 4 [t 5 "ce"], el 6 "bookmarkStart" [] none [], r 7 [t 8 "holder"]]

example : (mergeLevel cfg pieces3).map (fun ks => ks.map fun x => (x.id?, x.kids.map Xml.id?)) =
    .ok [(some 1, [some 2, some 5, some 8]), (some 3, []), (some 6, [])] := by decide +kernel
end Ex

end D2P

namespace D2P

theorem hasContentL_append : ∀ (a b : List Xml), hasContentL (a ++ b) = (hasContentL a || hasContentL b)
  | [], b => by simp [hasContentL]
  | x :: a, b => by simp only [List.cons_append, hasContentL, hasContentL_append a b, Bool.or_assoc]

/-- the merged element still has content -/
theorem hasContent_merged (r1 : Xml) (more : List Xml) (h : hasContent r1 = true) (he : r1.isElem = true) :
    hasContent (setTextKids r1 r1.text? (r1.kids ++ more)) = true := by
  cases r1 with
  | elem i p t m a tx tl ks =>
    have hp : (Xml.elem i p t m a tx tl (ks ++ more)).ptag = (Xml.elem i p t m a tx tl ks).ptag := by cases p <;> rfl
    simp only [hasContent, Bool.or_eq_true] at h
    simp only [setTextKids, Xml.text?, Xml.kids, hasContent, isContentTag, hp, hasContentL_append, Bool.or_eq_true]
    rcases h with h | h
    · exact Or.inl (by simpa [isContentTag] using h)
    · exact Or.inr (Or.inl h)
  | comment _ _ => simp [Xml.isElem] at he
  | pi _ => simp [Xml.isElem] at he

/-- **merging again changes nothing**: a single content-bearing element among content-free markup
is a group of one -/
theorem mergeLevel_single (cfg : PartCfg) (m : Xml) (noise : List Xml) (k : ElemKey)
    (hm : hasContent m = true) (hn : ∀ x ∈ noise, hasContent x = false) (hk : elemKey cfg m = .ok k) :
    mergeLevel cfg (m :: noise) = .ok (m :: noise) := by
  unfold mergeLevel
  have hf : (m :: noise).filter hasContent = [m] := by
    rw [List.filter_cons]; simp only [hm, if_true]
    congr 1
    exact List.filter_eq_nil_iff.2 (fun x hx => by simp [hn x hx])
  rw [hf]
  simp only [keyed, hk, ok_bind, pure, Except.pure]
  show Except.ok ((groupAdj [(k, m)]).foldl applyGroup (m :: noise)) = _
  simp [groupAdj, applyGroup]

/-- **C06, idempotence of the n-ary merge**: what `C06_split_many` produces is a fixed point -/
theorem C06_merge_idempotent (cfg : PartCfg) (r1 : Xml) (tail : List Xml) (k' : ElemKey)
    (h1 : hasContent r1 = true) (he : r1.isElem = true)
    (hk : elemKey cfg (setTextKids r1 r1.text? (r1.kids ++ (pieces tail).flatMap Xml.kids)) = .ok k') :
    mergeLevel cfg (mergedKids r1 tail) = .ok (mergedKids r1 tail) := by
  unfold mergedKids
  exact mergeLevel_single cfg _ _ k' (hasContent_merged r1 _ h1 he)
    (fun x hx => by simpa using (List.mem_filter.1 hx).2) hk

end D2P
