import D2P.Props.C17
import D2P.Props.Examples
/-!
# C17 — from one text node to everything below an element

`C17_node_text` says what replaces one `w:t`.  `C17_lift`: for ANY element tree (any depth, any
mixture of runs, links, fields, tabs, breaks, symbols, pictures …), the visible text of
`replace_root_text(root, old, new)` is the visible text of `root` in which every `w:t` that
contains the needle contributes the lines of its replaced text (joined by the `"\n"` of the inserted
breaks) and everything else contributes exactly what it contributed before — computed from the
ORIGINAL tree by `inlineTextR`.  Hypothesis `replSafe` (facts of the schema): a `w:t` has no child
elements, and no `w:t` containing the needle sits below an element whose own text is computed from
its children (an equation, a legacy form field).
-/
namespace D2P

mutual
/-- the visible text after replacement, read off the original tree -/
def inlineTextR (cfg : PartCfg) (old new : Str) : Xml → M Str
  | .elem i p t m a tx tl ks =>
    (ownText cfg (.elem i p t m a tx tl ks)) >>= fun o =>
    (if o.2 then inlineTextRL cfg old new ks else pure []) >>= fun rest => pure (o.1 ++ rest)
  | _ => pure []
def inlineTextRL (cfg : PartCfg) (old new : Str) : List Xml → M Str
  | [] => pure []
  | k :: ks =>
    (if hits old k then pure (linesText (replacedLines (k.text?.getD []) old new)) else inlineTextR cfg old new k) >>= fun a =>
    (inlineTextRL cfg old new ks) >>= fun b => pure (a ++ b)
end

mutual
def hasHit (old : Str) : Xml → Bool
  | .elem _ _ _ _ _ _ _ ks => hasHitL old ks
  | _ => false
def hasHitL (old : Str) : List Xml → Bool
  | [] => false
  | k :: ks => hits old k || hasHit old k || hasHitL old ks
end

/-- elements whose own text is computed from their children -/
def readsKids (x : Xml) : Bool :=
  tagMember x.ptag == some "MATH" || tagMember x.ptag == some "FORM_CHECKBOX" || tagMember x.ptag == some "FORM_DDLIST"

mutual
def replSafe (old : Str) : Xml → Bool
  | .elem i p t m a tx tl ks => (!readsKids (.elem i p t m a tx tl ks) || !hasHitL old ks) && replSafeL old ks
  | _ => true
def replSafeL (old : Str) : List Xml → Bool
  | [] => true
  | k :: ks => (!hits old k || k.kids.isEmpty) && replSafe old k && replSafeL old ks
end

/-! ## nothing to replace: nothing changes -/

mutual
theorem replaceIn_id (old new : Str) : (x : Xml) → hasHit old x = false → replaceIn old new x = .ok x
  | .elem i p t m a tx tl ks, h => by
    simp only [hasHit] at h
    simp only [replaceIn, replaceKids_id old new ks h, ok_bind]; rfl
  | .comment _ _, _ => rfl
  | .pi _, _ => rfl
theorem replaceKids_id (old new : Str) : (ks : List Xml) → hasHitL old ks = false → replaceKids old new ks = .ok ks
  | [], _ => rfl
  | k :: ks, h => by
    simp only [hasHitL, Bool.or_eq_false_iff] at h
    simp only [replaceKids, h.1.1, Bool.false_eq_true, if_false, replaceIn_id old new k h.1.2, ok_bind,
      replaceKids_id old new ks h.2]
    rfl
end

mutual
theorem inlineTextR_id (cfg : PartCfg) (old new : Str) : (x : Xml) → hasHit old x = false → inlineTextR cfg old new x = inlineText cfg x
  | .elem i p t m a tx tl ks, h => by
    simp only [hasHit] at h
    simp only [inlineTextR, inlineText, inlineTextRL_id cfg old new ks h]
  | .comment _ _, _ => rfl
  | .pi _, _ => rfl
theorem inlineTextRL_id (cfg : PartCfg) (old new : Str) : (ks : List Xml) → hasHitL old ks = false →
    inlineTextRL cfg old new ks = inlineTextL cfg ks
  | [], _ => rfl
  | k :: ks, h => by
    simp only [hasHitL, Bool.or_eq_false_iff] at h
    simp only [inlineTextRL, inlineTextL, h.1.1, Bool.false_eq_true, if_false, inlineTextR_id cfg old new k h.1.2,
      inlineTextRL_id cfg old new ks h.2]
end

/-! ## the own text of an element that does not read its children -/

theorem ownText_kids (cfg : PartCfg) (i : Nat) (p : Option Str) (t : QName) (m : NsMap) (a : List (QName × Str)) (tx tl : Option Str)
    (ks ks' : List Xml) (hr : readsKids (.elem i p t m a tx tl ks) = false) :
    ownText cfg (.elem i p t m a tx tl ks') = ownText cfg (.elem i p t m a tx tl ks) := by
  have hp : (Xml.elem i p t m a tx tl ks').ptag = (Xml.elem i p t m a tx tl ks).ptag := by cases p <;> rfl
  unfold readsKids at hr
  simp only [Bool.or_eq_false_iff, beq_eq_false_iff_ne, ne_eq] at hr
  unfold ownText
  rw [hp]
  split
  · rfl
  · rfl
  · rename_i h; exact absurd h hr.1.1
  · rfl
  · rfl
  · rfl
  · rename_i h; exact absurd h hr.1.2
  · rename_i h; exact absurd h hr.2
  · rfl
  · rfl
  · rfl
  · rfl
  · rfl
  · rfl

theorem inlineTextL_append (cfg : PartCfg) : ∀ (xs ys : List Xml),
    inlineTextL cfg (xs ++ ys) = (inlineTextL cfg xs) >>= fun a => (inlineTextL cfg ys) >>= fun b => pure (a ++ b)
  | [], ys => by
    simp only [List.nil_append, inlineTextL, pure, Except.pure, ok_bind, List.nil_append]
    cases inlineTextL cfg ys <;> rfl
  | x :: xs, ys => by
    simp only [List.cons_append, inlineTextL, inlineTextL_append cfg xs ys]
    cases inlineText cfg x with
    | error e => rfl
    | ok a =>
      simp only [ok_bind]
      cases inlineTextL cfg xs with
      | error e => rfl
      | ok b =>
        simp only [ok_bind]
        cases inlineTextL cfg ys with
        | error e => rfl
        | ok c => simp [pure, Except.pure, bind, Except.bind, List.append_assoc]

/-! ## the lift -/

mutual
/-- **C17: the whole tree below an element** (html off) -/
theorem C17_lift (cfg : PartCfg) (hc : cfg.html = false) (old new : Str) :
    (x x' : Xml) → replSafe old x = true → replaceIn old new x = .ok x' → inlineText cfg x' = inlineTextR cfg old new x
  | .elem i p t m a tx tl ks, x', hs, h => by
    simp only [replaceIn] at h
    obtain ⟨ks', hk, h⟩ := bind_ok h
    have := pure_ok h; subst this
    simp only [replSafe, Bool.and_eq_true, Bool.or_eq_true, Bool.not_eq_true'] at hs
    rcases hs.1 with hr | hh
    · -- the element does not read its children: same own text, children by induction
      simp only [inlineText, inlineTextR, ownText_kids cfg i p t m a tx tl ks ks' hr]
      cases ownText cfg (.elem i p t m a tx tl ks) with
      | error e => rfl
      | ok o =>
        simp only [ok_bind]
        cases o.2 with
        | false => rfl
        | true => simp only [if_true, C17_liftL cfg hc old new ks ks' hs.2 hk]
    · -- nothing is replaced below it
      have e := replaceKids_id old new ks hh
      rw [e] at hk; cases hk
      rw [inlineTextR_id cfg old new _ (by simpa [hasHit] using hh)]
  | .comment _ _, x', _, h => by simp only [replaceIn] at h; have := pure_ok h; subst this; rfl
  | .pi _, x', _, h => by simp only [replaceIn] at h; have := pure_ok h; subst this; rfl
theorem C17_liftL (cfg : PartCfg) (hc : cfg.html = false) (old new : Str) :
    (ks ks' : List Xml) → replSafeL old ks = true → replaceKids old new ks = .ok ks' →
      inlineTextL cfg ks' = inlineTextRL cfg old new ks
  | [], ks', _, h => by simp only [replaceKids] at h; have := pure_ok h; subst this; rfl
  | k :: ks, ks', hs, h => by
    simp only [replaceKids] at h
    obtain ⟨a, ha, h⟩ := bind_ok h
    obtain ⟨b, hb, h⟩ := bind_ok h
    have := pure_ok h; subst this
    simp only [replSafeL, Bool.and_eq_true, Bool.or_eq_true, Bool.not_eq_true'] at hs
    have ihb := C17_liftL cfg hc old new ks b hs.2 hb
    rw [inlineTextL_append, ihb]
    simp only [inlineTextRL]
    by_cases hh : hits old k = true
    · -- a text node hit by the needle
      simp only [hh, if_true] at ha ⊢
      have hke : k.kids.isEmpty = true := by
        rcases hs.1.1 with h1 | h1
        · rw [hh] at h1; exact absurd h1 (by decide)
        · exact h1
      cases k with
      | elem i p t m at' tx tl kk =>
        have hkk : kk = [] := by simpa [Xml.kids] using hke
        subst hkk
        have hp : (Xml.elem i p t m at' tx tl []).ptag = lit "w:t" := by
          unfold hits at hh; simp only [Bool.and_eq_true, beq_iff_eq] at hh; exact hh.1
        rw [C17_node_text cfg hc old new i p t m at' tx tl hp a ha]
        rfl
      | comment _ _ =>
        have : ((Xml.ptag (Xml.comment ‹_› ‹_›)) == lit "w:t") = false := by show ((lit "None:FAILED-uuid") == lit "w:t") = false; decide
        simp [hits, this] at hh
      | pi _ =>
        have : ((Xml.ptag (Xml.pi ‹_›)) == lit "w:t") = false := by show ((lit "None:FAILED-uuid") == lit "w:t") = false; decide
        simp [hits, this] at hh
    · have hh' : hits old k = false := by simpa using hh
      simp only [hh', Bool.false_eq_true, if_false] at ha ⊢
      obtain ⟨k', hk', ha⟩ := bind_ok ha
      have := pure_ok ha; subst this
      have ihk := C17_lift cfg hc old new k k' hs.1.2 hk'
      simp only [inlineTextL, ihk]
      cases inlineTextR cfg old new k with
      | error e => rfl
      | ok s => simp [pure, Except.pure, bind, Except.bind]
end

namespace Ex
/-- non-vacuity: a paragraph with two hit text nodes around a tab, and a field code that also contains the needle -/
def letter : Xml :=
  p 1 [r 2 [t 3 "Dear X,"], r 4 [el 5 "tab" [] none []], r 6 [el 7 "instrText" [] (some (lit " X ")) [], t 8 "your X"]]

example : replSafe (lit "X") letter = true := by decide +kernel
example : (replaceIn (lit "X") (lit "a\nb") letter >>= inlineText cfg) = .ok (lit "Dear a\nb,\tyour a\nb") := by decide +kernel
example : inlineTextR cfg (lit "X") (lit "a\nb") letter = .ok (lit "Dear a\nb,\tyour a\nb") := by decide +kernel
end Ex

end D2P
