import D2P.Model.Walk
/-!
# Reference semantics of inline content (for C02, C10, C11)

`inlineText cfg x` is the visible text of the subtree `x` in document order, for content that
contains no paragraph, table cell, note or hyperlink of its own (`FlatInline`): literal text of
`w:t`/`m:t`, one `"\t"` per tab, one `"\n"` per break, and the documented stand-ins. It is
written without reference to the collector.
-/
namespace D2P

/-- what an element contributes itself when it is opened (`none` = nothing), and whether its
children are visited -/
def ownText (cfg : PartCfg) (x : Xml) : M (Str × Bool) :=
  match tagMember x.ptag with
  | some "TEXT" => pure (if cfg.html then escapeHtml (x.text?.getD []) else x.text?.getD [], true)
  | some "TEXT_MATH" => pure (if cfg.html then escapeHtml (x.text?.getD []) else x.text?.getD [], true)
  | some "MATH" => pure (lit "<latex>" ++ (if cfg.html then escapeHtml x.itertext else x.itertext) ++ lit "</latex>", false)
  | some "BR" => pure (['\n'], true)
  | some "TAB" => pure (['\t'], true)
  | some "SYM" => (symCode x) >>= fun c => pure (c.getD [], true)
  | some "FORM_CHECKBOX" => (checkBoxEntry x) >>= fun t => pure (t, true)
  | some "FORM_DDLIST" => (ddListEntry x) >>= fun t => pure (t, true)
  | some "FOOTNOTE_REFERENCE" => (x.attrReq (lit "w") (lit "id")) >>= fun id => pure (lit "----footnote" ++ id ++ lit "----", true)
  | some "ENDNOTE_REFERENCE" => (x.attrReq (lit "w") (lit "id")) >>= fun id => pure (lit "----endnote" ++ id ++ lit "----", true)
  | some "IMAGE" => (imageRun cfg x "embed") >>= fun t => pure (t.getD [], true)
  | some "IMAGEDATA" => (imageRun cfg x "id") >>= fun t => pure (t.getD [], true)
  | some "IMAGE_ALT" => pure (((x.attrGet ⟨none, lit "descr"⟩).map fun d =>
      lit "----Image alt text---->" ++ (if cfg.html then escapeHtml d else d) ++ ['<']).getD [], true)
  | _ => pure ([], true)

mutual
def inlineText (cfg : PartCfg) : Xml → M Str
  | .elem i p t m a tx tl ks =>
    (ownText cfg (.elem i p t m a tx tl ks)) >>= fun o =>
    (if o.2 then inlineTextL cfg ks else pure []) >>= fun rest => pure (o.1 ++ rest)
  | _ => pure []
def inlineTextL (cfg : PartCfg) : List Xml → M Str
  | [] => pure []
  | k :: ks => (inlineText cfg k) >>= fun a => (inlineTextL cfg ks) >>= fun b => pure (a ++ b)
end

/-- tags whose handlers touch more than the open run: excluded from flat inline content -/
def isStructural (x : Xml) : Bool :=
  match tagMember x.ptag with
  | some "PARAGRAPH" | some "TABLE_CELL" | some "HYPERLINK" | some "FOOTNOTE" | some "ENDNOTE"
  | some "COMMENT_RANGE_START" | some "COMMENT_RANGE_END" => true
  | _ => false

mutual
/-- no paragraph, cell, hyperlink, note or comment marker at or below the element -/
def flatInline : Xml → Bool
  | .elem i p t m a tx tl ks => !isStructural (.elem i p t m a tx tl ks) && flatInlineL ks
  | _ => true
def flatInlineL : List Xml → Bool
  | [] => true
  | k :: ks => flatInline k && flatInlineL ks
end

end D2P
