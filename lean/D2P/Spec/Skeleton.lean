import D2P.Model.Walk
/-!
# The structural machine: what the walk does to everything except text

`walkA` is the walk with all text removed: it moves the caret, opens and concludes paragraph
records (identity, style name, lineage, list position), queues note labels (their number only),
copies or pads cells — and never looks at the `html` option, at a run property or at a character.
`Proofs/EraseWalk.lean` proves that the real walk, in either mode, refines it through `absDC`
(`walk_abs`); C19's "switching html leaves the structure alone" is then a corollary.
-/
namespace D2P

/-- `commence_paragraph`, structure only -/
def DC.commenceParA (a : DC) (elem : Option Xml) (inCell : Bool) : M DC :=
  (a.setCaret (some 4) (elem.map Xml.localname)) >>= fun a1 =>
  (match elem with | some e => getPStyle e | none => pure []) >>= fun st =>
  let lin := if elem.isSome && inCell then tableLineage else a1.lineage
  pure { a1 with queued := [], openPars := a1.openPars ++
    [{ elem := elem.bind Xml.id?, htmlStyle := [], style := st, lineage := lin, runs := [] }] }

/-- anything that adds text first makes sure a paragraph is open -/
def DC.ensureParA (a : DC) : M DC :=
  if a.openPars.isEmpty then a.commenceParA none false else pure a

def DC.queueRunA (a : DC) : DC := { a with queued := a.queued ++ [{ style := [] }] }

def openParagraphA (a : DC) (x : Xml) (inCell : Bool) : M DC :=
  (a.commenceParA (some x) inCell) >>= fun a1 =>
  let pid := (x.id?).getD 0
  (getBullet a1.bullets x pid) >>= fun bb =>
  let lp := listPosition bb.1 x pid
  (({ a1 with bullets := lp.1 } : DC).ensureParA) >>= fun a2 =>
  pure (a2.modTop fun p => { p with listPos := lp.2 })

/-- what opening an element means for the structure -/
inductive OpenKind where
  | paragraph                 -- a new paragraph record
  | text (descend : Bool)     -- text is added: a paragraph must be open
  | nothing (descend : Bool)
  | queue                     -- a note label waits for the next paragraph
  deriving Repr, DecidableEq

def relsCfg (rels : Dict Str Str) : PartCfg := { html := false, dup := false, rels := rels }

def textIf (b : Bool) : OpenKind := if b then .text true else .nothing true

def openKind (rels : Dict Str Str) (x : Xml) : M OpenKind :=
  match tagMember x.ptag with
  | some "PARAGRAPH" => pure .paragraph
  | some "RUN" => pure (.text true)
  | some "COMMENT_RANGE_END" => pure (.nothing false)
  | some "COMMENT_RANGE_START" => pure (.nothing false)
  | some "TEXT" => pure (.text true)
  | some "TEXT_MATH" => pure (.text true)
  | some "MATH" => pure (.text false)
  | some "BR" => pure (.text true)
  | some "SYM" => (symCode x) >>= fun c => pure (textIf c.isSome)
  | some "FOOTNOTE" => (isSeparatorNote x) >>= fun sep => pure (if sep then .nothing true else .queue)
  | some "ENDNOTE" => (isSeparatorNote x) >>= fun sep => pure (if sep then .nothing true else .queue)
  | some "HYPERLINK" => pure (.text false)
  | some "FORM_CHECKBOX" => pure (.text true)
  | some "FORM_DDLIST" => pure (.text true)
  | some "FOOTNOTE_REFERENCE" => pure (.text true)
  | some "ENDNOTE_REFERENCE" => pure (.text true)
  | some "IMAGE" => (imageRun (relsCfg rels) x "embed") >>= fun t => pure (textIf t.isSome)
  | some "IMAGEDATA" => (imageRun (relsCfg rels) x "id") >>= fun t => pure (textIf t.isSome)
  | some "IMAGE_ALT" => pure (textIf (x.attrGet ⟨none, lit "descr"⟩).isSome)
  | some "TAB" => pure (.text true)
  | _ => pure (.nothing true)

def openStepA (rels : Dict Str Str) (a : DC) (x : Xml) (inCell : Bool) : M (DC × Bool) :=
  (openKind rels x) >>= fun k =>
  match k with
  | .paragraph => (openParagraphA a x inCell) >>= fun a' => pure (a', true)
  | .text d => (a.ensureParA) >>= fun a' => pure (a', d)
  | .nothing d => pure (a, d)
  | .queue => (a.flushImplicit (some 4)) >>= fun a0 => pure (a0.queueRunA, true)

def closeStepACore (dup : Bool) (a : DC) (x : Xml) : M DC :=
  match tagMember x.ptag with
  | some "PARAGRAPH" => a.concludePar
  | some "RUN" => a.ensureParA
  | some "TABLE_CELL" => closeTableCell dup a x
  | _ => pure a

def closeStepA (dup : Bool) (a : DC) (x : Xml) : M DC :=
  (a.flushImplicit (elemDepth x)) >>= fun a0 => closeStepACore dup a0 x

def finishA (a : DC) : M DC :=
  (if a.queued.isEmpty then pure a else a.commenceParA none false) >>= fun a1 => a1.concludePar

mutual
def walkA (dup : Bool) (rels : Dict Str Str) (inCell : Bool) (a : DC) : Xml → M DC
  | .elem i p t m at' tx tl ks =>
    (a.setCaretOpen (elemDepth (.elem i p t m at' tx tl ks)) (some t.name)) >>= fun a1 =>
    (openStepA rels a1 (.elem i p t m at' tx tl ks) inCell) >>= fun r =>
    (if r.2 then walkLA dup rels (inCell || isCellTag (.elem i p t m at' tx tl ks)) r.1 ks else pure r.1) >>= fun a3 =>
    (closeStepA dup a3 (.elem i p t m at' tx tl ks)) >>= fun a4 =>
    a4.setCaret (elemDepth (.elem i p t m at' tx tl ks)) none
  | _ => pure a
def walkLA (dup : Bool) (rels : Dict Str Str) (inCell : Bool) (a : DC) : List Xml → M DC
  | [] => pure a
  | k :: ks => (walkA dup rels inCell a k) >>= fun a1 => walkLA dup rels inCell a1 ks
end

/-- the structure of a part: `new_depth_collector` with the text removed -/
def skeletonOf (dup : Bool) (rels : Dict Str Str) (num : Dict Str (List NumAttr)) (root : Xml) (inCell : Bool := false) : M DC :=
  (walkA dup rels inCell { bullets := { numAttrs := num } } root) >>= fun a => finishA a

end D2P
