import D2P.Spec.Inline
/-!
# The run machine: which runs a paragraph's inline content produces (both html modes), and where
a comment marker cuts them

`inlineText` (Spec/Inline.lean) says which TEXT a paragraph gets.  This spec is finer: it says how
that text is cut into runs — a run is a list of formatting tags and a text; the run strings of
`*_runs` are the renderings `<tags>text</tags>` of the runs whose text is not empty — which is what
comment ranges index.  A state is `(done, cur)`: the runs that are complete, and the run in
progress.  Three things can happen:

* `txt t`      text goes into the run in progress (escaped when html is exported);
* `newRun st`  a run boundary: the run in progress is complete (kept if it has text), the next one
               carries the tags `st` — for a `w:r`, exactly its recognised formatting
               (`runFormatting`), nothing else;
* `ins t`      a stand-in (tab, picture, note reference, link, equation …): the run in progress is
               complete, `t` is an untagged run of its own, and the run in progress resumes with
               the tags it had.

A marker records `k + count`, `k` being the number of strings before this paragraph's first run
(those of finished paragraphs, plus the paragraph's own opening tag when it has one) and `count` the
number of runs complete or in progress that have text.  Nothing else: no collector, no tree.
-/
namespace D2P

abbrev RState := List Run × Run

/-- a run counts only if its text is not empty -/
def keep (r : Run) : List Run := if r.text.isEmpty then [] else [r]

def RState.txt (r : RState) (t : Str) : RState := (r.1, { r.2 with text := r.2.text ++ t })
def RState.newRun (r : RState) (st : List Str) : RState := (r.1 ++ keep r.2, { style := st, text := [] })
def RState.ins (r : RState) (t : Str) : RState :=
  (r.1 ++ keep r.2 ++ keep { style := [], text := t }, { style := r.2.style, text := [] })
def RState.insOpt (r : RState) (t : Option Str) : RState := match t with | some t => r.ins t | none => r
/-- runs with text, complete or in progress -/
def RState.count (r : RState) : Nat := r.1.length + (keep r.2).length
/-- all runs with text, the one in progress last -/
def RState.runs (r : RState) : List Run := r.1 ++ keep r.2
/-- the state before anything: no run, an untagged empty run in progress -/
def RState.init : RState := ([], { style := [], text := [] })

structure RS where
  r : RState
  ranges : Dict Str (Nat × Nat)

def RS.start (st : RS) (k : Nat) (id : Str) : RS :=
  { st with ranges := st.ranges.set id (k + st.r.count, k + st.r.count) }
def RS.stop (st : RS) (k : Nat) (id : Str) : RS :=
  { st with ranges := st.ranges.set id (((st.ranges.get? id).getD (k + st.r.count, k + st.r.count)).1, k + st.r.count) }

def foldMarkers (f : RS → Str → RS) : RS → List Xml → M RS
  | st, [] => pure st
  | st, m :: ms => (m.attrReq (lit "w") (lit "id")) >>= fun id => foldMarkers f (f st id) ms

/-- elements whose handlers move the caret, open or close paragraphs, or queue note labels -/
def isBlockish (x : Xml) : Bool :=
  match tagMember x.ptag with
  | some "PARAGRAPH" | some "TABLE_CELL" | some "FOOTNOTE" | some "ENDNOTE" => true
  | _ => false

mutual
/-- inline content in the widest sense: anything below which no paragraph, cell or note starts -/
def simple : Xml → Bool
  | .elem i p t m a tx tl ks => !isBlockish (.elem i p t m a tx tl ks) && simpleL ks
  | _ => true
def simpleL : List Xml → Bool
  | [] => true
  | k :: ks => simple k && simpleL ks
end

/-- what opening an element does to the strings and the ranges (`k` strings in finished paragraphs;
`link` = the text of a hyperlink's children, computed by the nested collectors) -/
def openRuns (cfg : PartCfg) (k : Nat) (x : Xml) (link : M Str) (st : RS) : M (RS × Bool) :=
  match tagMember x.ptag with
  | some "RUN" => (runFormatting cfg.html x) >>= fun f => pure ({ st with r := st.r.newRun f }, true)
  | some "COMMENT_RANGE_END" => (x.attrReq (lit "w") (lit "id")) >>= fun id => pure (st.stop k id, false)
  | some "COMMENT_RANGE_START" => (x.attrReq (lit "w") (lit "id")) >>= fun id => pure (st.start k id, false)
  | some "TEXT" =>
      let t := if cfg.html then escapeHtml (x.text?.getD []) else x.text?.getD []
      pure ({ st with r := st.r.txt t }, true)
  | some "TEXT_MATH" =>
      let t := if cfg.html then escapeHtml (x.text?.getD []) else x.text?.getD []
      pure ({ st with r := st.r.txt t }, true)
  | some "MATH" =>
      let t := lit "<latex>" ++ (if cfg.html then escapeHtml x.itertext else x.itertext) ++ lit "</latex>"
      pure ({ st with r := st.r.ins t }, false)
  | some "BR" => pure ({ st with r := st.r.txt ['\n'] }, true)
  | some "SYM" => (symCode x) >>= fun c => pure ({ st with r := match c with | some c => st.r.txt c | none => st.r }, true)
  | some "HYPERLINK" =>
      link >>= fun t =>
      (wq x "commentRangeStart") >>= fun qs =>
      (foldMarkers (fun s id => s.start k id) st (descTaggedL qs x.kids)) >>= fun st1 =>
      (linkRun cfg x t) >>= fun r =>
      (wq x "commentRangeEnd") >>= fun qe =>
      (foldMarkers (fun s id => s.stop k id) { st1 with r := st1.r.ins r } (descTaggedL qe x.kids)) >>= fun st2 =>
      pure (st2, false)
  | some "FORM_CHECKBOX" => (checkBoxEntry x) >>= fun t => pure ({ st with r := st.r.ins t }, true)
  | some "FORM_DDLIST" => (ddListEntry x) >>= fun t => pure ({ st with r := st.r.ins t }, true)
  | some "FOOTNOTE_REFERENCE" => (x.attrReq (lit "w") (lit "id")) >>= fun id =>
      pure ({ st with r := st.r.ins (lit "----footnote" ++ id ++ lit "----") }, true)
  | some "ENDNOTE_REFERENCE" => (x.attrReq (lit "w") (lit "id")) >>= fun id =>
      pure ({ st with r := st.r.ins (lit "----endnote" ++ id ++ lit "----") }, true)
  | some "IMAGE" => (imageRun cfg x "embed") >>= fun t => pure ({ st with r := st.r.insOpt t }, true)
  | some "IMAGEDATA" => (imageRun cfg x "id") >>= fun t => pure ({ st with r := st.r.insOpt t }, true)
  | some "IMAGE_ALT" =>
      let alt := (x.attrGet ⟨none, lit "descr"⟩).map fun d =>
        lit "----Image alt text---->" ++ (if cfg.html then escapeHtml d else d) ++ ['<']
      pure ({ st with r := st.r.insOpt alt }, true)
  | some "TAB" => pure ({ st with r := st.r.ins ['\t'] }, true)
  | _ => pure (st, true)

def closeRuns (x : Xml) (st : RS) : RS :=
  match tagMember x.ptag with
  | some "RUN" => { st with r := st.r.newRun [] }
  | _ => st

mutual
/-- the strings and ranges after the inline content `x`; `links x` gives a hyperlink's text -/
def runsOf (cfg : PartCfg) (k : Nat) (links : Xml → M Str) : Xml → RS → M RS
  | .elem i p t m a tx tl ks, st =>
    (openRuns cfg k (.elem i p t m a tx tl ks) (links (.elem i p t m a tx tl ks)) st) >>= fun o =>
    (if o.2 then runsOfL cfg k links ks o.1 else pure o.1) >>= fun st1 =>
    pure (closeRuns (.elem i p t m a tx tl ks) st1)
  | _, st => pure st
def runsOfL (cfg : PartCfg) (k : Nat) (links : Xml → M Str) : List Xml → RS → M RS
  | [], st => pure st
  | x :: xs, st => (runsOf cfg k links x st) >>= fun st1 => runsOfL cfg k links xs st1
end

/-- the text of a hyperlink, as the nested collectors deliver it -/
def linksOf (cfg : PartCfg) (num : Dict Str (List NumAttr)) (c : Bool) (x : Xml) : M Str :=
  (textBelowL cfg num c x.kids) >>= rootsText

end D2P
