import D2P.Model.Format
/-!
# `merge_runs.py` and `attribute_register.has_content`
-/
namespace D2P

/-- what `merge_elems` and the walker need to know about the part being processed -/
structure PartCfg where
  html : Bool
  dup : Bool
  rels : Dict Str Str          -- `File.rels` of this part
  deriving Repr, Inhabited

def contentTagsL : List Str := Gen.contentTags.map lit
def mergeableTagsL : List Str := Gen.mergeableTags.map lit
def isContentTag (x : Xml) : Bool := contentTagsL.contains x.ptag
def isMergeable (x : Xml) : Bool := mergeableTagsL.contains x.ptag
def isTextLike (x : Xml) : Bool := x.ptag == lit "w:t" || x.ptag == lit "m:t"

mutual
/-- `has_content(tree) is not None` -/
def hasContent : Xml → Bool
  | .elem i p t m a tx tl ks => isContentTag (.elem i p t m a tx tl ks) || hasContentL ks
  | _ => false
def hasContentL : List Xml → Bool
  | [] => false
  | k :: ks => hasContent k || hasContentL ks
end

structure ElemKey where
  tag : QName
  target : Str
  fmt : List Str
  deriving DecidableEq, Repr

/-- `elem.nsmap.get(prefix)` -/
def nsGet (x : Xml) (pfx : Str) : Option Str := (x.nsmap.find? (fun e => e.1 == some pfx)).map (·.2)

/-- `_elem_key(file, elem)` -/
def elemKey (cfg : PartCfg) (x : Xml) : M ElemKey :=
  let tag := x.tag?.getD ⟨none, []⟩
  if !isMergeable x then pure ⟨tag, [], []⟩ else
  let relsId : Option Str := (nsGet x (lit "r")).bind fun u => x.attrGet ⟨some u, lit "id"⟩
  match relsId with
  | some rid =>
    if rid.isEmpty then (htmlFormatting cfg.html x) >>= fun f => pure ⟨tag, [], f⟩ else
    (match cfg.rels.get? rid with
      | none => pure ⟨tag, lit "unresolved:" ++ rid, []⟩
      | some target =>
        -- `elem.attrib.get(f"{{{elem.nsmap.get('w')}}}anchor") or ""`
        let anchor := ((nsGet x (lit "w")).bind fun u => x.attrGet ⟨some u, lit "anchor"⟩).getD []
        pure ⟨tag, target, [anchor]⟩)
  | none => (htmlFormatting cfg.html x) >>= fun f => pure ⟨tag, [], f⟩

def keyed (cfg : PartCfg) : List Xml → M (List (ElemKey × Xml))
  | [] => pure []
  | x :: xs => (elemKey cfg x) >>= fun k => (keyed cfg xs) >>= fun r => pure ((k, x) :: r)

/-- `itertools.groupby` on adjacent equal keys -/
def groupAdj : List (ElemKey × Xml) → List (List Xml)
  | [] => []
  | (k, a) :: rest =>
    match rest, groupAdj rest with
    | (k', _) :: _, g :: gs => if k == k' then (a :: g) :: gs else [a] :: g :: gs
    | _, gs => [a] :: gs

def setTextKids : Xml → Option Str → List Xml → Xml
  | .elem i p t m a _ tl _, tx, ks => .elem i p t m a tx tl ks
  | x, _, _ => x

/-- apply one merge group to the children list -/
def applyGroup (kids : List Xml) (g : List Xml) : List Xml :=
  match g with
  | first :: rest =>
    if rest.isEmpty || !isMergeable first then kids else
    let newText : Option Str :=
      if isTextLike first then some (sjoin (g.map fun e => (e.text?).getD [])) else first.text?
    let moved := rest.flatMap Xml.kids
    let restIds := rest.filterMap Xml.id?
    kids.filterMap fun k =>
      match k.id? with
      | some i =>
        if restIds.contains i then none
        else if some i == first.id? then some (setTextKids k newText (k.kids ++ moved))
        else some k
      | none => some k
  | [] => kids

/-- the part of `merge_elems` that works on one children list -/
def mergeLevel (cfg : PartCfg) (kids : List Xml) : M (List Xml) :=
  (keyed cfg (kids.filter hasContent)) >>= fun ks =>
  pure ((groupAdj ks).foldl applyGroup kids)

def mapM' (f : Xml → M Xml) : List Xml → M (List Xml)
  | [] => pure []
  | x :: xs => (f x) >>= fun y => (mapM' f xs) >>= fun ys => pure (y :: ys)

/-- `merge_elems(file, tree)`; fuel ≥ height + 1 suffices -/
def mergeFuel (cfg : PartCfg) : Nat → Xml → M Xml
  | 0, _ => .error .modelLimit
  | f+1, .elem i p t m a tx tl ks =>
    (mergeLevel cfg ks) >>= fun ks1 =>
    (mapM' (mergeFuel cfg f) ks1) >>= fun ks2 =>
    pure (.elem i p t m a tx tl ks2)
  | _+1, x => pure x

def mergeElems (cfg : PartCfg) (x : Xml) : M Xml := mergeFuel cfg (x.height + 1) x

end D2P
