import D2P.Model.Format
/-!
# `numbering_formats.py`, `bullets_and_numbering.py`, `docx_context.collect_numAttrs`
-/
namespace D2P

/-! ## renderers -/

def lowerLetterAux : Nat → Nat → Str → Str
  | 0, _, acc => acc
  | f+1, n, acc => if n == 0 then acc else
      lowerLetterAux f ((n - 1) / 26) (Char.ofNat ('a'.toNat + (n - 1) % 26) :: acc)

/-- `lower_letter(n)`; `ValueError` below 1 -/
def lowerLetter (n : Int) : M Str :=
  if n < 1 then .error .valueError else pure (lowerLetterAux n.toNat n.toNat [])

def upperLetter (n : Int) : M Str := (lowerLetter n) >>= fun s => pure (upperAscii s)

def romanPasses (subs : List (String × String)) (s : Str) : Str :=
  subs.foldl (fun r pq => replaceAll r (lit pq.1) (lit pq.2)) s

/-- `lower_roman(n)`; `ValueError` below 1 -/
def lowerRoman (n : Int) : M Str :=
  if n < 1 then .error .valueError else pure (romanPasses Gen.romanSubs (List.replicate n.toNat 'i'))

def upperRoman (n : Int) : M Str := (lowerRoman n) >>= fun s => pure (upperAscii s)

def decimalStr (n : Int) : Str := intToStr n

def Gen.NumFn.render (f : Gen.NumFn) (n : Int) : M Str :=
  match f with
  | .decimal => pure (decimalStr n)
  | .lowerLetter => D2P.lowerLetter n
  | .upperLetter => D2P.upperLetter n
  | .lowerRoman => D2P.lowerRoman n
  | .upperRoman => D2P.upperRoman n
  | .bullet => pure (lit Gen.bulletStr)

/-- `_get_bullet_function(numFmt)` (unknown formats: warning + bullet) -/
def bulletFunction (numFmt : Str) : Gen.NumFn :=
  match Gen.numFmtTable.find? (fun e => lit e.1 == numFmt) with
  | some e => e.2
  | none => .bullet

/-! ## numbering definitions -/

structure NumAttr where
  fmt : Option Str
  start : Option Int
  deriving Repr, Inhabited, DecidableEq

def wq (x : Xml) (name : String) : M QName := x.qn (lit "w") (lit name)

/-- one `w:lvl` -/
def lvlAttr (lvl : Xml) : M NumAttr :=
  (wq lvl "numFmt") >>= fun qf =>
  (match lvl.findChild qf with
    | some e => (e.attrReq (lit "w") (lit "val")) >>= fun v => pure (some v)
    | none => pure none) >>= fun fmt =>
  (wq lvl "start") >>= fun qs =>
  (match lvl.findChild qs with
    | some e => (e.attrReq (lit "w") (lit "val")) >>= fun v =>
        (match parseInt v with | some i => pure (some i) | none => .error .valueError)
    | none => pure none) >>= fun start =>
  pure { fmt := fmt, start := start }

def lvlAttrs : List Xml → M (List NumAttr)
  | [] => pure []
  | l :: ls => (lvlAttr l) >>= fun a => (lvlAttrs ls) >>= fun as => pure (a :: as)

def abstractNums : List Xml → Dict Str (List NumAttr) → M (Dict Str (List NumAttr))
  | [], d => pure d
  | a :: as, d =>
    (a.attrReq (lit "w") (lit "abstractNumId")) >>= fun id =>
    (wq a "lvl") >>= fun ql =>
    (lvlAttrs (a.findChildren ql)) >>= fun ls =>
    abstractNums as (d.set id ls)

def numEntries (abs : Dict Str (List NumAttr)) : List Xml → Dict Str (List NumAttr) → M (Dict Str (List NumAttr))
  | [], d => pure d
  | n :: ns, d =>
    (n.attrReq (lit "w") (lit "numId")) >>= fun numId =>
    (wq n "abstractNumId") >>= fun qa =>
    match n.findChild qa with
    | none => numEntries abs ns d
    | some a =>
      (a.attrReq (lit "w") (lit "val")) >>= fun v =>
      -- a reference to a definition that does not exist leaves THIS list undefined (`.get`, then `continue`)
      match abs.get? v with
      | none => numEntries abs ns d
      | some ls => numEntries abs ns (d.set numId ls)

/-- `collect_numAttrs(numFmts_root)` -/
def collectNumAttrs (root : Xml) : M (Dict Str (List NumAttr)) :=
  (wq root "abstractNum") >>= fun qa =>
  (abstractNums (root.findChildren qa) []) >>= fun abs =>
  (wq root "num") >>= fun qnum =>
  numEntries abs (root.findChildren qnum) []

/-! ## counters -/

abbrev Counter := Dict Str Nat           -- ilvl (as written) ↦ count
abbrev Counters := Dict Str Counter      -- numId ↦ counter

/-- `_increment_list_counter`: levels are compared **as strings** -/
def incrementListCounter (c : Counter) (ilvl : Str) : Counter × Nat :=
  let n := (c.get? ilvl).getD 0 + 1
  let c := c.set ilvl n
  (c.delWhere (fun k => strGt k ilvl), n)

structure Bullets where
  numAttrs : Dict Str (List NumAttr)
  counts : Counters := []
  memo : Dict Nat (Option Int) := []     -- paragraph element id ↦ number
  deriving Repr, Inhabited

/-- `BulletGenerator.get_bullet_fmt`: `(numId, ilvl)`, each `None` if it cannot be read -/
def bulletFmt (p : Xml) : Option Str × Option Str :=
  match wq p "pPr" with
  | .error _ => (none, none)
  | .ok qp =>
    match p.findChild qp with
    | none => (none, none)
    | some ppr =>
      match wq ppr "numPr" with
      | .error _ => (none, none)
      | .ok qn' =>
        match ppr.findChild qn' with
        | none => (none, none)
        | some npr =>
          let get (name : String) : Option Str :=
            match wq npr name with
            | .error _ => none
            | .ok q => match npr.findChild q with
              | none => none
              | some e => match e.attrReq (lit "w") (lit "val") with | .ok v => some v | .error _ => none
          (get "numId", get "ilvl")

/-- `__get_num_fmt_attributes` -/
def numFmtAttributes (b : Bullets) (numId ilvl : Str) : Option NumAttr :=
  match b.numAttrs.get? numId, parseInt ilvl with
  | some ls, some i => (pyIndex ls i).toOption
  | _, _ => none

/-- `get_start_value_zero_based` -/
def startValueZeroBased (b : Bullets) (numId ilvl : Str) : Int :=
  match numFmtAttributes b numId ilvl with
  | some a => (match a.start with | some s => s - 1 | none => 0)
  | none => 0

/-- `get_par_number` (memoised per paragraph element) -/
def parNumber (b : Bullets) (p : Xml) (pid : Nat) : Bullets × Option Int :=
  match b.memo.get? pid with
  | some n => (b, n)
  | none =>
    match bulletFmt p with
    | (some numId, some ilvl) =>
      let r := incrementListCounter ((b.counts.get? numId).getD []) ilvl
      let num : Int := r.2 + startValueZeroBased b numId ilvl
      ({ b with counts := b.counts.set numId r.1, memo := b.memo.set pid (some num) }, some num)
    | _ => ({ b with memo := b.memo.set pid none }, none)

/-- `format_bullet` -/
def formatBullet (ilvl : Str) (bullet : Str) : M Str :=
  match parseInt ilvl with
  | none => .error .valueError
  | some k =>
    let b := if bullet != lit Gen.bulletStr then bullet ++ [')'] else bullet
    pure (List.replicate k.toNat '\t' ++ b ++ ['\t'])

/-- `get_bullet` -/
def getBullet (b : Bullets) (p : Xml) (pid : Nat) : M (Bullets × Str) :=
  let r := parNumber b p pid
  match bulletFmt p, r.2 with
  | (some numId, some ilvl), some number =>
    let fmt := match numFmtAttributes r.1 numId ilvl with
      | some a => (match a.fmt with | some f => if f.isEmpty then lit "bullet" else f | none => lit "bullet")
      | none => lit "bullet"
    let fn := bulletFunction fmt
    -- try: format_bullet(fn(number)) except ValueError: format_bullet(decimal(number))
    match (fn.render number) >>= fun s => formatBullet ilvl s with
    | .ok s => pure (r.1, s)
    | .error .valueError => (formatBullet ilvl (decimalStr number)) >>= fun s => pure (r.1, s)
    | .error e => .error e
  | _, _ => pure (r.1, [])

/-- `get_list_position` -/
def listPosition (b : Bullets) (p : Xml) (pid : Nat) : Bullets × (Option Str × List Nat) :=
  match (bulletFmt p).1 with
  | none => (b, (none, []))
  | some numId =>
    let r := parNumber b p pid
    -- `self.numId2count[numPr]` on a defaultdict creates the entry
    let c := (r.1.counts.get? numId).getD []
    ({ r.1 with counts := r.1.counts.set numId c }, (some numId, c.values))

end D2P
