import D2P.Model.Walk
/-!
# `utilities.py`: `replace_root_text` (as repaired: only `w:t` is rewritten, a trailing line
break is kept)
-/
namespace D2P

/-- lines of the replaced text, as the code computes them -/
def replacedLines (text old new : Str) : List Str :=
  let t := replaceAll text old new
  let ls := splitLines t
  if !ls.isEmpty && endsWithBreak t then ls ++ [[]] else ls

/-- `_new_br_element(elem)`: a `w:br` in the namespace bound to `w` at `elem` -/
def brLike (x : Xml) : M Xml :=
  (x.qn (lit "w") (lit "br")) >>= fun q => pure (.elem 0 (some (lit "w")) q x.nsmap [] none none [])

def withText : Xml → Str → Xml
  | .elem i p t m a _ tl ks, s => .elem i p t m a (some s) tl ks
  | x, _ => x

/-- `[x for pair in zip(new_elems, breaks) for x in pair][:-1]` -/
def interleave (br : Xml) : List Xml → List Xml
  | [] => []
  | [x] => [x]
  | x :: y :: rest => x :: br :: interleave br (y :: rest)

/-- is this element rewritten? (`w:t` whose text contains the needle) -/
def hits (old : Str) (x : Xml) : Bool :=
  x.ptag == lit "w:t" && (match x.text? with | some t => !t.isEmpty && containsSub old t | none => false)

/-- the elements that replace a `w:t` hit by the needle -/
def replacement (old new : Str) (x : Xml) : M (List Xml) :=
  (brLike x) >>= fun br =>
  pure (interleave br ((replacedLines (x.text?.getD []) old new).map (withText x)))

mutual
/-- `replace_root_text(root, old, new)`: children hit by the needle are replaced in place,
the others are searched recursively -/
def replaceKids (old new : Str) : List Xml → M (List Xml)
  | [] => pure []
  | k :: ks =>
    (if hits old k then replacement old new k else (replaceIn old new k) >>= fun k' => pure [k']) >>= fun a =>
    (replaceKids old new ks) >>= fun b => pure (a ++ b)
def replaceIn (old new : Str) : Xml → M Xml
  | .elem i p t m a tx tl ks => (replaceKids old new ks) >>= fun ks' => pure (.elem i p t m a tx tl ks')
  | x => pure x
end

end D2P
