import D2P.Model.Py
/-!
# The reader as a state machine: caches, the lazily opened zip handle, `close`

Cacheable *units* are the private cache fields of the code: `DocxReader.__files`,
`File.__root_element` per member, `DocxReader.__numId2Attrs`; `File.__depth_collector` is
derived from them. `raw` stands for an archive access that is never cached
(`pull_image_files`, `_copy_but`). Which units an attribute read needs is a function of the
package, the options and of which collectors are already cached; it is a parameter here
(`Needs`) and is computed by the extraction model in the driver.
-/
namespace D2P

inductive UnitKey where
  | files
  | root (path : Str)
  | num
  | raw (path : Str)
  deriving DecidableEq, Repr, BEq

structure LState where
  closed : Bool := false
  zipOpen : Bool := false
  units : List UnitKey := []
  collectors : List Str := []      -- parts whose depth collector is cached
  deriving Repr, DecidableEq

/-- what one read fetches: archive units, and the collectors it leaves cached -/
structure Need where
  units : List UnitKey
  collectors : List Str
  deriving Repr

inductive Op where
  | read (attr : Nat)          -- any attribute of DocxContent / DocxReader, by number
  | save
  | close
  | withExit (byException : Bool)
  deriving Repr, DecidableEq

inductive Res where
  | value (attr : Nat)         -- the value a fresh object returns for that attribute
  | saved
  | valueError                 -- "DocxReader instance has been closed."
  | done (exceptionPropagates : Bool)
  deriving Repr, DecidableEq

abbrev Needs := List Str → Nat → Need     -- cached collectors ↦ attribute ↦ need

def isCached (s : LState) (u : UnitKey) : Bool :=
  match u with
  | .raw _ => false
  | u => s.units.contains u

def cacheable : UnitKey → Bool | .raw _ => false | _ => true

/-- fetch a list of units: all cached ⇒ no archive access; otherwise the `zipf` property is
hit: `ValueError` when closed, else the handle is (lazily) opened and the units are cached -/
def fetch (s : LState) (us : List UnitKey) : Option LState :=
  if us.all (isCached s) then some s
  else if s.closed then none
  else some { s with zipOpen := true, units := s.units ++ (us.filter fun u => cacheable u && !s.units.contains u) }

/-- every member of the archive, uncached: what `save` and `images` read -/
def step (needs : Needs) (allRaw : List UnitKey) (s : LState) : Op → LState × Res
  | .read a =>
    let n := needs s.collectors a
    match fetch s n.units with
    | some s' => ({ s' with collectors := s'.collectors ++ n.collectors.filter (fun p => !s'.collectors.contains p) }, .value a)
    | none => (s, .valueError)
  | .save =>
    match fetch s (.files :: allRaw) with
    | some s' => (s', .saved)
    | none => (s, .valueError)
  | .close => ({ s with closed := true, zipOpen := false }, .done true)
  | .withExit _ => ({ s with closed := true, zipOpen := false }, .done true)   -- `__exit__` returns None

def run (needs : Needs) (allRaw : List UnitKey) : LState → List Op → LState × List Res
  | s, [] => (s, [])
  | s, op :: ops =>
    let r := step needs allRaw s op
    let rest := run needs allRaw r.1 ops
    (rest.1, r.2 :: rest.2)

end D2P
