import D2P.Model.Package
/-!
# `DocxReader.save` and `_copy_but`

XML serialisation and re-parsing are not modelled: a saved content part *is* the (merged) tree.
-/
namespace D2P

def overwriteTypes : List Str := contentTypes ++ [lit "relationships"]

/-- `{x.path: x for x in self.files if x.Type in overwrite and x.path in members}`: one `File`
per member path, the first one wins -/
def addFirst (d : Dict Str Rel) (f : Rel) : Dict Str Rel :=
  if d.any (·.1 == f.path) then d else d ++ [(f.path, f)]

def saveTargets (a : Archive) (files : List Rel) : Dict Str Rel :=
  (files.filter fun f => overwriteTypes.contains f.type && a.namelist.contains f.path).foldl addFirst []

/-- `_copy_but(in_zip, out_zip, exclusions)`: every directory entry whose name is not excluded,
with the content `in_zip.read(name)` returns for that name -/
def copyBut (a : Archive) (excl : List Str) : List Str → M (List (Str × Member))
  | [] => pure []
  | n :: ns =>
    if excl.contains n then copyBut a excl ns else
    (a.read n) >>= fun m => (copyBut a excl ns) >>= fun rest => pure ((n, m) :: rest)

def writeRoots (o : Opts) (a : Archive) (files : List Rel) : List (Str × Rel) → M (List (Str × Member))
  | [] => pure []
  | (path, r) :: rest =>
    (rootElement o a files r) >>= fun cr => (writeRoots o a files rest) >>= fun ms => pure ((path, Member.xml cr.2) :: ms)

/-- `DocxReader.save(filename)`: the archive written -/
def save (o : Opts) (a : Archive) : M Archive :=
  (a.files) >>= fun files =>
  let targets := saveTargets a files
  (copyBut a targets.keys a.namelist) >>= fun copied =>
  (writeRoots o a files targets) >>= fun written =>
  pure { members := copied ++ written }

end D2P
