import D2P.Model.Str
/-!
# Python runtime conventions used by the model

* exceptions are values (`PyErr`), partial operations return `M α = Except PyErr α`;
* dicts are association lists with Python's semantics (insertion order kept, assignment to
  an existing key keeps its position).
-/
namespace D2P

inductive PyErr where
  | keyError | indexError | valueError | typeError | attributeError | stopIteration
  | caretDepth      -- depth_collector.CaretDepthError
  | closedArchive   -- ValueError("DocxReader instance has been closed.")
  | xmlSyntax       -- lxml.etree.XMLSyntaxError
  | badZip
  | modelLimit      -- the model's own fuel ran out: never expected, reported as a disagreement
  deriving Repr, DecidableEq, Inhabited

abbrev M := Except PyErr

instance [DecidableEq α] : DecidableEq (M α)
  | .ok a, .ok b => if h : a = b then isTrue (by rw [h]) else isFalse (by intro h'; cases h'; exact h rfl)
  | .error a, .error b => if h : a = b then isTrue (by rw [h]) else isFalse (by intro h'; cases h'; exact h rfl)
  | .ok _, .error _ => isFalse (by intro h; cases h)
  | .error _, .ok _ => isFalse (by intro h; cases h)

theorem bind_ok {α β : Type} {x : M α} {f : α → M β} {b : β} (h : (x >>= f) = .ok b) :
    ∃ a, x = .ok a ∧ f a = .ok b := by
  cases x with
  | error e => simp [bind, Except.bind] at h
  | ok a => exact ⟨a, rfl, by simpa [bind, Except.bind] using h⟩

theorem pure_ok {α : Type} {a b : α} (h : (pure a : M α) = .ok b) : a = b := by
  simpa [pure, Except.pure] using h

theorem ok_bind {α β : Type} (a : α) (f : α → M β) : ((Except.ok a : M α) >>= f) = f a := rfl

/-- `suppress(kind)`: turn one error kind into a default value -/
def suppress (kind : PyErr) (dflt : α) (x : M α) : M α :=
  match x with
  | .ok a => .ok a
  | .error e => if e = kind then .ok dflt else .error e

/-- `xs[i]` with Python's negative indices -/
def pyIndex (xs : List α) (i : Int) : M α :=
  let n : Int := xs.length
  let j := if i < 0 then i + n else i
  if j < 0 ∨ j ≥ n then .error .indexError else
  match xs[j.toNat]? with | some x => .ok x | none => .error .indexError

/-- `xs[-1]` -/
def pyLast (xs : List α) : M α := match xs.getLast? with | some x => .ok x | none => .error .indexError

/-! ## dict -/

abbrev Dict (κ ν : Type) := List (κ × ν)

def Dict.get? [BEq κ] (d : Dict κ ν) (k : κ) : Option ν := (d.find? (·.1 == k)).map (·.2)

/-- `d[k]` -/
def Dict.getM [BEq κ] (d : Dict κ ν) (k : κ) : M ν := match d.get? k with | some v => .ok v | none => .error .keyError

/-- `d[k] = v` -/
def Dict.set [BEq κ] (d : Dict κ ν) (k : κ) (v : ν) : Dict κ ν :=
  if d.any (·.1 == k) then d.map (fun kv => if kv.1 == k then (kv.1, v) else kv) else d ++ [(k, v)]

/-- `del d[k]` for every key satisfying `p` -/
def Dict.delWhere (d : Dict κ ν) (p : κ → Bool) : Dict κ ν := d.filter (fun kv => !p kv.1)

def Dict.keys (d : Dict κ ν) : List κ := d.map (·.1)
def Dict.values (d : Dict κ ν) : List ν := d.map (·.2)

end D2P
