/-!
# Strings as lists of code points

Python `str` is a sequence of Unicode code points; the model uses `List Char`.
Only the operations docx2python actually uses are defined here, each mirroring the
CPython semantics for the arguments the code passes (non-empty patterns etc.).
-/
namespace D2P

abbrev Str := List Char

/-- Literal helper: `s!"..."`-free way to write model string constants. -/
@[inline] def lit (s : String) : Str := s.toList

def Str.toString (s : Str) : String := String.ofList s

/-- `"".join(xs)` -/
def sjoin : List Str → Str
  | [] => []
  | x :: xs => x ++ sjoin xs

/-- `sep.join(xs)` -/
def sjoinSep (sep : Str) : List Str → Str
  | [] => []
  | [x] => x
  | x :: y :: xs => x ++ sep ++ sjoinSep sep (y :: xs)

def isPrefixOf : Str → Str → Bool
  | [], _ => true
  | _ :: _, [] => false
  | p :: ps, c :: cs => p == c && isPrefixOf ps cs

/-- Python `str.replace(pat, rep)` for a non-empty `pat`: leftmost, non-overlapping.
`fuel` only has to be at least the length of the input. -/
def replaceAux (pat rep : Str) : Nat → Str → Str
  | 0, s => s
  | _, [] => []
  | f+1, c :: cs =>
    if isPrefixOf pat (c :: cs) then rep ++ replaceAux pat rep f ((c :: cs).drop pat.length)
    else c :: replaceAux pat rep f cs

def replaceAll (s pat rep : Str) : Str := replaceAux pat rep s.length s

/-- does `pat` (non-empty) occur in `s`?  (`pat in s`) -/
def containsSub (pat : Str) : Str → Bool
  | [] => pat.isEmpty
  | c :: cs => isPrefixOf pat (c :: cs) || containsSub pat cs

/-- `s.split(sep)` for a single-character separator -/
def splitOnChar (sep : Char) : Str → List Str
  | [] => [[]]
  | c :: cs =>
    match splitOnChar sep cs with
    | [] => [[]]   -- unreachable
    | h :: t => if c == sep then [] :: h :: t else (c :: h) :: t

/-- code-point lexicographic order, Python `a < b` on `str` -/
def strLt : Str → Str → Bool
  | [], [] => false
  | [], _ :: _ => true
  | _ :: _, [] => false
  | a :: as, b :: bs => if a.toNat < b.toNat then true else if a.toNat > b.toNat then false else strLt as bs

def strGt (a b : Str) : Bool := strLt b a

/-- ASCII lower/upper as used on tags and on the a..z renderings -/
def lowerAscii (s : Str) : Str := s.map fun c => if 'A' ≤ c ∧ c ≤ 'Z' then Char.ofNat (c.toNat + 32) else c
def upperAscii (s : Str) : Str := s.map fun c => if 'a' ≤ c ∧ c ≤ 'z' then Char.ofNat (c.toNat - 32) else c

def isDigit (c : Char) : Bool := '0' ≤ c ∧ c ≤ '9'

def digitsToNat : Str → Nat → Nat
  | [], acc => acc
  | c :: cs, acc => digitsToNat cs (acc * 10 + (c.toNat - '0'.toNat))

/-- Python `int(s)` restricted to what XML schema decimal values look like:
optional surrounding ASCII whitespace, optional sign, ASCII digits. `none` = `ValueError`. -/
def parseInt (s : Str) : Option Int :=
  let isWs : Char → Bool := fun c => c == ' ' || c == '\t' || c == '\n' || c == '\r'
  let s := (s.dropWhile isWs).reverse.dropWhile isWs |>.reverse
  match s with
  | '-' :: ds => if !ds.isEmpty && ds.all isDigit then some (-(Int.ofNat (digitsToNat ds 0))) else none
  | '+' :: ds => if !ds.isEmpty && ds.all isDigit then some (Int.ofNat (digitsToNat ds 0)) else none
  | ds => if !ds.isEmpty && ds.all isDigit then some (Int.ofNat (digitsToNat ds 0)) else none

def natToDigitsAux : Nat → Nat → Str → Str
  | 0, _, acc => acc
  | f+1, n, acc =>
    let acc := Char.ofNat ('0'.toNat + n % 10) :: acc
    if n / 10 == 0 then acc else natToDigitsAux f (n / 10) acc

/-- `str(n)` for a natural number -/
def natToStr (n : Nat) : Str := natToDigitsAux (n + 1) n []

def intToStr (i : Int) : Str :=
  match i with
  | .ofNat n => natToStr n
  | .negSucc n => '-' :: natToStr (n + 1)

/-- characters on which `str.splitlines` breaks -/
def isLineBreak (c : Char) : Bool :=
  c == '\n' || c == '\r' || c.toNat == 0x0b || c.toNat == 0x0c || c.toNat == 0x1c || c.toNat == 0x1d ||
  c.toNat == 0x1e || c.toNat == 0x85 || c.toNat == 0x2028 || c.toNat == 0x2029

/-- `s.splitlines()`; `\r\n` is one break; no trailing empty line. Structural: the flag
says that the previous character was a `\r` that already ended a line. -/
def splitLinesAux : Str → Str → Bool → List Str
  | [], cur, _ => if cur.isEmpty then [] else [cur.reverse]
  | c :: cs, cur, afterCR =>
    if afterCR && c == '\n' then splitLinesAux cs cur false
    else if isLineBreak c then cur.reverse :: splitLinesAux cs [] (c == '\r')
    else splitLinesAux cs (c :: cur) false

def splitLines (s : Str) : List Str := splitLinesAux s [] false

/-- does the text end with a line break (so that `splitlines(keepends=True)[-1]` differs)? -/
def endsWithBreak (s : Str) : Bool := match s.getLast? with | some c => isLineBreak c | none => false

end D2P
