import D2P.Model.Py
/-!
# `iterators.py`: `enum_at_depth`, `iter_at_depth` and the eight wrappers

The argument is any Python value: a list, a string (iterating it yields its characters as
one-character strings) or some other object (iterating it is a `TypeError`).
Generators are consumed completely by the model (`list(enum_at_depth(...))`).
-/
namespace D2P

inductive PyVal where
  | str (s : Str)
  | list (xs : List PyVal)
  | obj (tag : Str)
  deriving Repr, Inhabited

/-- `iter(v)` -/
def PyVal.items : PyVal → M (List PyVal)
  | .list xs => pure xs
  | .str s => pure (s.map fun c => .str [c])
  | .obj _ => .error .typeError

/-- `enumerate(xs, start)` -/
def enumFrom : Nat → List α → List (Nat × α)
  | _, [] => []
  | n, x :: xs => (n, x) :: enumFrom (n + 1) xs

abbrev Addr := List Nat

/-- `for i, x in enumerate(nested): for j, y in inner(x): yield ((i, *j), y)` -/
def nestLoop (inner : PyVal → M (List (Addr × PyVal))) : List (Nat × PyVal) → M (List (Addr × PyVal))
  | [] => pure []
  | (i, x) :: rest =>
    (inner x) >>= fun ys => (nestLoop inner rest) >>= fun zs => pure (ys.map (fun jy => (i :: jy.1, jy.2)) ++ zs)

/-- the `depth == 1` branch -/
def enum1 (v : PyVal) : M (List (Addr × PyVal)) := (v.items) >>= fun xs => pure ((enumFrom 0 xs).map fun ix => ([ix.1], ix.2))
/-- the `depth == 2` branch -/
def enum2 (v : PyVal) : M (List (Addr × PyVal)) := (v.items) >>= fun xs => nestLoop enum1 (enumFrom 0 xs)
/-- the `depth == 3` branch -/
def enum3 (v : PyVal) : M (List (Addr × PyVal)) := (v.items) >>= fun xs => nestLoop enum2 (enumFrom 0 xs)
/-- the `depth == 4` branch -/
def enum4 (v : PyVal) : M (List (Addr × PyVal)) := (v.items) >>= fun xs => nestLoop enum3 (enumFrom 0 xs)
/-- the `depth == 5` branch -/
def enum5 (v : PyVal) : M (List (Addr × PyVal)) := (v.items) >>= fun xs => nestLoop enum4 (enumFrom 0 xs)

/-- `list(enum_at_depth(nested, depth))` -/
def enumAtDepth (v : PyVal) (depth : Int) : M (List (Addr × PyVal)) :=
  if depth = 1 then enum1 v else if depth = 2 then enum2 v else if depth = 3 then enum3 v
  else if depth = 4 then enum4 v else if depth = 5 then enum5 v else .error .valueError

/-- `list(iter_at_depth(nested, depth))`: `(x for _, x in enum_at_depth(nested, depth))` in every branch -/
def iterAtDepth (v : PyVal) (depth : Int) : M (List PyVal) :=
  if depth = 1 ∨ depth = 2 ∨ depth = 3 ∨ depth = 4 ∨ depth = 5 then
    (enumAtDepth v depth) >>= fun ps => pure (ps.map (·.2))
  else .error .valueError

def iterTables (v : PyVal) := iterAtDepth v 1
def iterRows (v : PyVal) := iterAtDepth v 2
def iterCells (v : PyVal) := iterAtDepth v 3
def iterParagraphs (v : PyVal) := iterAtDepth v 4
def enumTables (v : PyVal) := enumAtDepth v 1
def enumRows (v : PyVal) := enumAtDepth v 2
def enumCells (v : PyVal) := enumAtDepth v 3
def enumParagraphs (v : PyVal) := enumAtDepth v 4

/-- generic recursion the five branches are copies of -/
def enumGen : Nat → PyVal → M (List (Addr × PyVal))
  | 0, v => pure [([], v)]
  | d+1, v => (v.items) >>= fun xs => nestLoop (enumGen d) (enumFrom 0 xs)

/-- `nested[a0][a1]…` -/
def index : PyVal → Addr → Option PyVal
  | v, [] => some v
  | .list xs, i :: rest => match xs[i]? with | some x => index x rest | none => none
  | .str s, i :: rest => match s[i]? with | some c => index (.str [c]) rest | none => none
  | .obj _, _ :: _ => none

end D2P
