import D2P.Model.Walk
/-!
# The generated handler table agrees with the handlers the model implements

`Gen.openHandlers` / `Gen.closeHandlers` are read off the live `TagRunner` class by
`gen_tables.py`. If a handler is added, removed or changes whether it lets the walk descend,
these `decide`s fail and the build names this file: the model no longer mirrors the dispatch.
-/
namespace D2P

/-- the `_open_*` handlers `openStep` implements, with the value they return -/
def modelOpenHandlers : List (String × Bool) := [
  ("br", true), ("comment_range_end", false), ("comment_range_start", false), ("endnote", true),
  ("endnote_reference", true), ("footnote", true), ("footnote_reference", true), ("form_checkbox", true),
  ("form_ddlist", true), ("hyperlink", false), ("image", true), ("imagedata", true),
  ("image_alt", true), ("math", false), ("paragraph", true), ("run", true),
  ("sym", true), ("tab", true), ("text", true), ("text_math", true)]

/-- the `_close_*` handlers `closeStep` implements -/
def modelCloseHandlers : List String := ["paragraph", "run", "table_cell"]

theorem open_handlers_agree : Gen.openHandlers = modelOpenHandlers := by decide
theorem close_handlers_agree : Gen.closeHandlers = modelCloseHandlers := by decide

end D2P
