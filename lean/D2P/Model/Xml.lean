import D2P.Model.Py
/-!
# The lxml view of a parsed part

An element carries exactly what docx2python reads through lxml: the prefix as written in
the source (`elem.prefix`), the namespace URI and local name of its tag, its in-scope
namespace map (`elem.nsmap`), its attributes by Clark name, `.text`, `.tail` and children.
Comments and processing instructions are children too (lxml yields them); their `.tag` is
not a string, which is what makes `etree.QName(elem.tag)` raise `ValueError` for them.
`id` is the preorder number given by the encoder and stands for object identity.
-/
namespace D2P

structure QName where
  ns : Option Str
  name : Str
  deriving Repr, DecidableEq, Inhabited

abbrev NsMap := List (Option Str × Str)

inductive Xml where
  | elem (id : Nat) (pfx : Option Str) (tag : QName) (nsmap : NsMap) (attrs : List (QName × Str))
      (text : Option Str) (tail : Option Str) (kids : List Xml)
  | comment (text : Str) (tail : Option Str)
  | pi (tail : Option Str)
  deriving Repr, Inhabited

namespace Xml

def kids : Xml → List Xml | .elem _ _ _ _ _ _ _ k => k | _ => []
def id? : Xml → Option Nat | .elem i .. => some i | _ => none
def text? : Xml → Option Str | .elem _ _ _ _ _ t _ _ => t | .comment t _ => some t | .pi _ => none
def tail? : Xml → Option Str | .elem _ _ _ _ _ _ t _ => t | .comment _ t => t | .pi t => t
def isElem : Xml → Bool | .elem .. => true | _ => false
def tag? : Xml → Option QName | .elem _ _ t .. => some t | _ => none
def nsmap : Xml → NsMap | .elem _ _ _ m .. => m | _ => []
def attrs : Xml → List (QName × Str) | .elem _ _ _ _ a .. => a | _ => []

/-- `get_localname`: the local name, or a string that matches nothing for comments/PIs
(the real code returns `FAILED-<uuid4>` after a warning). -/
def localname : Xml → Str
  | .elem _ _ t .. => t.name
  | _ => lit "FAILED-uuid"

/-- `get_prefixed_tag`: `f"{elem.prefix}:{localname}"` -/
def ptag : Xml → Str
  | .elem _ (some p) t .. => p ++ [':'] ++ t.name
  | .elem _ none t .. => lit "None:" ++ t.name
  | _ => lit "None:FAILED-uuid"

/-- `namespace.qn(elem, "p:name")`: `KeyError` when the prefix is not in scope -/
def qn (x : Xml) (pfx name : Str) : M QName :=
  match x.nsmap.find? (fun e => e.1 == some pfx) with
  | some e => .ok ⟨some e.2, name⟩
  | none => .error .keyError

/-- `elem.attrib.get(key)` -/
def attrGet (x : Xml) (q : QName) : Option Str := (x.attrs.find? (fun a => a.1 == q)).map (·.2)

/-- `elem.attrib.get(qn(elem, "p:name"))` — `KeyError` only from `qn` -/
def attrQ (x : Xml) (pfx name : Str) : M (Option Str) := (x.qn pfx name) >>= fun q => pure (x.attrGet q)

/-- `elem.attrib[qn(elem, "p:name")]` -/
def attrReq (x : Xml) (pfx name : Str) : M Str :=
  (x.attrQ pfx name) >>= fun v => match v with | some s => pure s | none => .error .keyError

/-- first child with the given Clark tag (`next(elem.iterfind(tag))` / `elem.find(tag)`) -/
def findChild (x : Xml) (q : QName) : Option Xml := x.kids.find? (fun k => k.tag? == some q)
def findChildren (x : Xml) (q : QName) : List Xml := x.kids.filter (fun k => k.tag? == some q)

end Xml

mutual
def Xml.height : Xml → Nat
  | .elem _ _ _ _ _ _ _ ks => 1 + Xml.heightL ks
  | _ => 1
def Xml.heightL : List Xml → Nat
  | [] => 0
  | k :: ks => max k.height (Xml.heightL ks)
end

mutual
/-- `"".join(elem.itertext())`: text and tails of the subtree, not comment bodies -/
def Xml.itertext : Xml → Str
  | .elem _ _ _ _ _ t _ ks => t.getD [] ++ Xml.itertextL ks
  | _ => []
def Xml.itertextL : List Xml → Str
  | [] => []
  | k :: ks => k.itertext ++ k.tail?.getD [] ++ Xml.itertextL ks
end

end D2P
