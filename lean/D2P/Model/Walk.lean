import D2P.Model.Collector
/-!
# `docx_text.py` and `forms.py`
-/
namespace D2P

/-- `Tags(prefixed_tag).name`, or none (`ValueError` ⇒ "not in the register") -/
def tagTable : List (Str × String) := Gen.tags.map fun e => (lit e.2, e.1)

def tagMember (ptag : Str) : Option String := (tagTable.find? (fun e => e.1 == ptag)).map (·.2)

def tagValue (member : String) : Str := match Gen.tags.find? (fun e => e.1 == member) with | some e => lit e.2 | none => lit "?:?"

def paragraphTag : Str := tagValue "PARAGRAPH"
def documentTag : Str := tagValue "DOCUMENT"
def bodyTag : Str := tagValue "BODY"
def hyperlinkTag : Str := tagValue "HYPERLINK"

/-! ## element depth -/

def optMin : Option Nat → Option Nat → Option Nat
  | some a, some b => some (min a b)
  | some a, none => some a
  | none, b => b

mutual
/-- distance to the nearest `w:p` at or below the element (what the breadth-first
`search_at_depth` finds) -/
def nearestPar : Xml → Option Nat
  | .elem i p t m a tx tl ks =>
    if (Xml.elem i p t m a tx tl ks).ptag == paragraphTag then some 0 else (nearestParL ks).map (· + 1)
  | _ => none
def nearestParL : List Xml → Option Nat
  | [] => none
  | k :: ks => optMin (nearestPar k) (nearestParL ks)
end

/-- `_get_elem_depth` -/
def elemDepth (x : Xml) : Option Nat :=
  if x.ptag == documentTag || x.ptag == bodyTag then none
  else (nearestPar x).map fun k => max (4 - k) 1

/-! ## forms -/

def wChild (x : Xml) (name : String) : M (Option Xml) := (wq x name) >>= fun q => pure (x.findChild q)

/-- `get_wval()` inside `get_checkBox_entry` -/
def checkBoxVal (cb : Xml) : M (Option Str) :=
  (wChild cb "checked") >>= fun c =>
  match c with
  | some c => (c.attrQ (lit "w") (lit "val")) >>= fun v =>
      pure (some (match v with | some s => if s.isEmpty then lit "1" else s | none => lit "1"))
  | none =>
    (wChild cb "default") >>= fun d =>
    match d with
    | some d => suppress .keyError none ((d.attrReq (lit "w") (lit "val")) >>= fun v => pure (some v))
    | none => pure none

/-- `get_checkBox_entry` -/
def checkBoxEntry (cb : Xml) : M Str :=
  (checkBoxVal cb) >>= fun v =>
  pure (match v with
    | some s => (match Gen.checkBoxTable.find? (fun e => lit e.1 == s) with
        | some e => lit e.2 | none => lit Gen.checkBoxFallback)
    | none => lit Gen.checkBoxFallback)

def reqVals : List Xml → M (List Str)
  | [] => pure []
  | e :: es => (e.attrReq (lit "w") (lit "val")) >>= fun v => (reqVals es) >>= fun vs => pure (v :: vs)

/-- `get_ddList_entry` -/
def ddListEntry (dd : Xml) : M Str :=
  (wq dd "listEntry") >>= fun ql =>
  (reqVals (dd.findChildren ql)) >>= fun entries =>
  (wChild dd "result") >>= fun r =>
  (match r with
    | none => pure (0 : Int)
    | some r =>
      match r.attrReq (lit "w") (lit "val") with
      | .error .keyError => pure 0
      | .error e => .error e
      | .ok v => (match parseInt v with | some i => pure i | none => .error .valueError)) >>= fun idx =>
  match pyIndex entries idx with
  | .ok s => pure s
  | .error _ => pure []

/-! ## closing a table cell -/

def getRow (root : List Nest) (ti ri : Nat) : M (List Nest) :=
  match root[ti]? with
  | some (.list rows) => (match rows[ri]? with | some (.list cells) => pure cells | _ => .error .modelLimit)
  | _ => .error .modelLimit

def setRow (root : List Nest) (ti ri : Nat) (cells : List Nest) : List Nest :=
  root.modify ti fun | .list rows => .list (rows.set ri (.list cells)) | x => x

mutual
/-- `copy.deepcopy` of a cell: the copies are marked and lose their element identity -/
def markCopyT : Nest → Nest
  | .par p => .par { p with copy := true, elem := none }
  | .list xs => .list (markCopyL xs)
def markCopyL : List Nest → List Nest
  | [] => []
  | x :: xs => markCopyT x :: markCopyL xs
end

/-- indices of `this_tbl = tree[-1]`, `this_tr = this_tbl[-1]`; none = the guarded `IndexError` -/
def captureRow (root : List Nest) : M (Option (Nat × Nat × Nat)) :=
  match root.getLast? with
  | none => pure none
  | some (.list rows) => if rows.isEmpty then pure none else pure (some (root.length - 1, rows.length - 1, rows.length))
  | some (.par _) => .error .modelLimit

/-- number of rows of table `ti` -/
def rowCount (root : List Nest) (ti : Nat) : Nat :=
  match root[ti]? with | some (.list rows) => rows.length | _ => 0

/-- `this_tr` is the row captured *before* the caret is moved; `prev_tr = this_tbl[-2]` is looked
up *after* `set_caret(3)`, which appends a row when the caret stood above row level (a block
content control inside the cell leaves it there): then `this_tbl[-2]` is `this_tr` itself. -/
def vmergeDo (ti ri : Nat) (s : DC) : M DC :=
  (s.setCaret (some 3) none) >>= fun s1 =>
  (getRow s1.root ti ri) >>= fun thisTr =>
  (getRow s1.root ti (rowCount s1.root ti - 2)) >>= fun prevTr =>
  if thisTr.isEmpty then pure s1 else
  match prevTr[thisTr.length - 1]? with
  | none => pure s1
  | some above => pure { s1 with root := setRow s1.root ti ri (thisTr.dropLast ++ [markCopyT above]) }

def vmergeStep (dup isCont : Bool) (nrows ti ri : Nat) (s : DC) : M DC :=
  if dup && isCont && decide (nrows > 1) then vmergeDo ti ri s else pure s

def newCell (dup : Bool) (thisTr : List Nest) : Nest :=
  match dup, thisTr.getLast? with
  | true, some c => markCopyT c
  | _, _ => .list [.par emptyPar]

def spanStep (dup : Bool) (ti ri : Nat) (s : DC) : M DC :=
  (s.setCaret (some 3) none) >>= fun s1 =>
  (getRow s1.root ti ri) >>= fun thisTr =>
  pure { s1 with root := setRow s1.root ti ri (thisTr ++ [newCell dup thisTr]) }

def iterateM (f : DC → M DC) : Nat → DC → M DC
  | 0, s => pure s
  | n+1, s => (f s) >>= fun s1 => iterateM f n s1

/-- `int(pr.get("gridSpan") or 1) - 1`, clipped at 0 as `range` does -/
def spanExtra (pr : Dict Str (Option Str)) : M Nat :=
  match (pr.get? (lit "gridSpan")).getD none with
  | some v => (match parseInt v with | some i => pure (i - 1).toNat | none => .error .valueError)
  | none => pure 0

/-- `pr.get("vMerge", "restart") in {None, "continue"}` -/
def isContinuation (pr : Dict Str (Option Str)) : Bool :=
  match pr.get? (lit "vMerge") with
  | some none => true
  | some (some v) => v == lit "continue"
  | none => false

/-- `_close_table_cell` -/
def closeTableCell (dup : Bool) (s : DC) (tc : Xml) : M DC :=
  -- a cell without any paragraph has produced nothing: its neighbours are left alone
  if (elemDepth tc).isNone then pure s else
  (gatherPr tc) >>= fun pr =>
  (captureRow s.root) >>= fun cap =>
  match cap with
  | none => pure s
  | some (ti, ri, nrows) =>
    (vmergeStep dup (isContinuation pr) nrows ti ri s) >>= fun s1 =>
    (spanExtra pr) >>= fun n =>
    iterateM (spanStep dup ti ri) n s1

/-! ## handlers -/

def isSeparatorNote (x : Xml) : M Bool :=
  (x.attrQ (lit "w") (lit "type")) >>= fun t => pure (containsSub (lit "separator") (lowerAscii (t.getD [])))

def noteLabel (s : DC) (x : Xml) (kind : String) : M DC :=
  (isSeparatorNote x) >>= fun sep =>
  if sep then pure s else
  (x.attrReq (lit "w") (lit "id")) >>= fun id =>
  -- `queue_run_for_next_paragraph`: the run is for the NEXT paragraph, a pending implicit one ends here
  (s.flushImplicit (some 4)) >>= fun s0 => pure (s0.queueRun (lit kind ++ id ++ lit ")\t"))

/-- `str(tree.attrib.get(qn(tree, "w:<name>")))` -/
def attrStrOrNone (x : Xml) (name : String) : M Str :=
  (x.attrQ (lit "w") (lit name)) >>= fun v => pure (v.getD (lit "None"))

def symCode (x : Xml) : M (Option Str) :=
  (attrStrOrNone x "font") >>= fun font =>
  (attrStrOrNone x "char") >>= fun char =>
  if char.isEmpty then pure none else
  pure (some (lit "<span style=font-family:" ++ font ++ lit ">&#x0" ++ char.drop 1 ++ lit ";</span>"))

/-- `self.file.rels[tree.attrib[qn(tree, "r:<name>")]]` -/
def relTarget (cfg : PartCfg) (x : Xml) (name : String) : M Str :=
  (x.attrReq (lit "r") (lit name)) >>= fun rid => cfg.rels.getM rid

/-- the `try` block of `_open_hyperlink` -/
def linkHref (cfg : PartCfg) (x : Xml) : M Str :=
  (relTarget cfg x "id") >>= fun link =>
  (x.attrQ (lit "w") (lit "anchor")) >>= fun anchor =>
  pure (match anchor with
    | some a => if !link.isEmpty && !a.isEmpty then link ++ ['#'] ++ a else link
    | none => link)

def linkRun (cfg : PartCfg) (x : Xml) (text : Str) : M Str :=
  match linkHref cfg x with
  | .ok href => pure (lit "<a href=\"" ++ href ++ lit "\">" ++ text ++ lit "</a>")
  | .error .keyError => pure text
  | .error e => .error e

def imageRun (cfg : PartCfg) (x : Xml) (attr : String) : M (Option Str) :=
  match relTarget cfg x attr with
  | .ok img => pure (some (lit "----" ++ img ++ lit "----"))
  | .error .keyError => pure none
  | .error e => .error e

def insertOpt (html : Bool) (s : DC) (t : Option Str) : M DC :=
  match t with | some t => s.insertNewRun html t | none => pure s

def withTrue (x : M DC) : M (DC × Bool) := x >>= fun s => pure (s, true)
def withFalse (x : M DC) : M (DC × Bool) := x >>= fun s => pure (s, false)

def openParagraph (cfg : PartCfg) (s : DC) (x : Xml) (inCell : Bool) : M DC :=
  (s.commencePar cfg.html (some x) inCell) >>= fun s1 =>
  let pid := (x.id?).getD 0
  (getBullet s1.bullets x pid) >>= fun bb =>
  let lp := listPosition bb.1 x pid
  (({ s1 with bullets := lp.1 } : DC).insertNewRun cfg.html bb.2) >>= fun s2 =>
  pure (s2.modTop fun p => { p with listPos := lp.2 })

/-- text of a hyperlink: all run strings of all paragraphs of the children's collectors, in order -/
def rootsText : List (List Nest) → M Str
  | [] => pure []
  | r :: rs =>
    let rec parsText : List Par → M Str
      | [] => pure []
      | p :: ps => (p.runStrings) >>= fun a => (parsText ps) >>= fun b => pure (sjoin a ++ b)
    (parsText (leafParsL r)) >>= fun a => (rootsText rs) >>= fun b => pure (a ++ b)

mutual
/-- `tree.iter(q)` without the root: the descendants with that qualified name, in document order -/
def descTagged (q : QName) : Xml → List Xml
  | .elem i p t m a tx tl ks => (if t == q then [.elem i p t m a tx tl ks] else []) ++ descTaggedL q ks
  | _ => []
def descTaggedL (q : QName) : List Xml → List Xml
  | [] => []
  | k :: ks => descTagged q k ++ descTaggedL q ks
end

/-- `for marker in …: f(marker.attrib[qn(marker, "w:id")])` -/
def foldIds (f : DC → Str → M DC) : DC → List Xml → M DC
  | s, [] => pure s
  | s, m :: ms => (m.attrReq (lit "w") (lit "id")) >>= fun id => (f s id) >>= fun s1 => foldIds f s1 ms

/-- `_open_hyperlink`: the link is one run; a comment range that starts / ends inside the link
starts before / ends after that run -/
def openHyperlink (cfg : PartCfg) (s : DC) (x : Xml) (roots : List (List Nest)) : M DC :=
  (rootsText roots) >>= fun t =>
  (wq x "commentRangeStart") >>= fun qs =>
  (foldIds DC.startRange s (descTaggedL qs x.kids)) >>= fun s1 =>
  (linkRun cfg x t) >>= fun r =>
  (s1.insertNewRun cfg.html r) >>= fun s2 =>
  (wq x "commentRangeEnd") >>= fun qe =>
  foldIds DC.endRange s2 (descTaggedL qe x.kids)

/-- `TagRunner.open` after the caret has been set; `roots` are the collectors of a
hyperlink's children (empty for every other element) -/
def openStep (cfg : PartCfg) (s : DC) (x : Xml) (inCell : Bool) (roots : List (List Nest)) : M (DC × Bool) :=
  match tagMember x.ptag with
  | some "PARAGRAPH" => withTrue (openParagraph cfg s x inCell)
  | some "RUN" => withTrue (s.commenceRun cfg.html (some x))
  | some "COMMENT_RANGE_END" => withFalse ((x.attrReq (lit "w") (lit "id")) >>= fun id => s.endRange id)
  | some "COMMENT_RANGE_START" => withFalse ((x.attrReq (lit "w") (lit "id")) >>= fun id => s.startRange id)
  | some "TEXT" => withTrue (s.addText cfg.html (x.text?.getD []))
  | some "TEXT_MATH" => withTrue (s.addText cfg.html (x.text?.getD []))
  | some "MATH" => withFalse (s.insertNewRun cfg.html
      (lit "<latex>" ++ (if cfg.html then escapeHtml x.itertext else x.itertext) ++ lit "</latex>"))
  | some "BR" => withTrue (s.addCode cfg.html ['\n'])
  | some "SYM" => withTrue ((symCode x) >>= fun c => match c with | some c => s.addCode cfg.html c | none => pure s)
  | some "FOOTNOTE" => withTrue (noteLabel s x "footnote")
  | some "ENDNOTE" => withTrue (noteLabel s x "endnote")
  | some "HYPERLINK" => withFalse (openHyperlink cfg s x roots)
  | some "FORM_CHECKBOX" => withTrue ((checkBoxEntry x) >>= fun t => s.insertNewRun cfg.html t)
  | some "FORM_DDLIST" => withTrue ((ddListEntry x) >>= fun t => s.insertNewRun cfg.html t)
  | some "FOOTNOTE_REFERENCE" => withTrue ((x.attrReq (lit "w") (lit "id")) >>= fun id =>
      s.insertNewRun cfg.html (lit "----footnote" ++ id ++ lit "----"))
  | some "ENDNOTE_REFERENCE" => withTrue ((x.attrReq (lit "w") (lit "id")) >>= fun id =>
      s.insertNewRun cfg.html (lit "----endnote" ++ id ++ lit "----"))
  | some "IMAGE" => withTrue ((imageRun cfg x "embed") >>= fun t => insertOpt cfg.html s t)
  | some "IMAGEDATA" => withTrue ((imageRun cfg x "id") >>= fun t => insertOpt cfg.html s t)
  | some "IMAGE_ALT" => withTrue (insertOpt cfg.html s
      ((x.attrGet ⟨none, lit "descr"⟩).map fun d =>
        lit "----Image alt text---->" ++ (if cfg.html then escapeHtml d else d) ++ ['<']))
  | some "TAB" => withTrue (s.insertNewRun cfg.html ['\t'])
  | _ => pure (s, true)

/-- the handler part of `TagRunner.close` -/
def closeStepCore (cfg : PartCfg) (s : DC) (x : Xml) : M DC :=
  match tagMember x.ptag with
  | some "PARAGRAPH" => s.concludePar
  | some "RUN" => s.commenceRun cfg.html none
  | some "TABLE_CELL" => closeTableCell cfg.dup s x
  | _ => pure s

/-- `TagRunner.close` before the final `set_caret`: an implicit paragraph ends with the block that encloses it -/
def closeStep (cfg : PartCfg) (s : DC) (x : Xml) : M DC :=
  (s.flushImplicit (elemDepth x)) >>= fun s0 => closeStepCore cfg s0 x

/-- tail of `new_depth_collector` -/
def finish (cfg : PartCfg) (s : DC) : M DC :=
  (if s.queued.isEmpty then pure s else s.commencePar cfg.html none false) >>= fun s1 => s1.concludePar

def isCellTag (x : Xml) : Bool := x.ptag == lit "w:tc"

mutual
/-- `branches(tree)` -/
def walk (cfg : PartCfg) (num : Dict Str (List NumAttr)) (inCell : Bool) (s : DC) : Xml → M DC
  | .elem i p t m a tx tl ks =>
    (s.setCaretOpen (elemDepth (.elem i p t m a tx tl ks)) (some t.name)) >>= fun s1 =>
    (if (Xml.elem i p t m a tx tl ks).ptag == hyperlinkTag
      then textBelowL cfg num (inCell || isCellTag (.elem i p t m a tx tl ks)) ks else pure []) >>= fun roots =>
    (openStep cfg s1 (.elem i p t m a tx tl ks) inCell roots) >>= fun r =>
    (if r.2 then walkL cfg num (inCell || isCellTag (.elem i p t m a tx tl ks)) r.1 ks else pure r.1) >>= fun s3 =>
    (closeStep cfg s3 (.elem i p t m a tx tl ks)) >>= fun s4 =>
    s4.setCaret (elemDepth (.elem i p t m a tx tl ks)) none
  | _ => pure s
def walkL (cfg : PartCfg) (num : Dict Str (List NumAttr)) (inCell : Bool) (s : DC) : List Xml → M DC
  | [] => pure s
  | k :: ks => (walk cfg num inCell s k) >>= fun s1 => walkL cfg num inCell s1 ks
/-- `[get_file_text(file, z) for z in root]`: one fresh collector per child -/
def textBelowL (cfg : PartCfg) (num : Dict Str (List NumAttr)) (inCell : Bool) : List Xml → M (List (List Nest))
  | [] => pure []
  | k :: ks =>
    (walk cfg num inCell { bullets := { numAttrs := num } } k) >>= fun dc =>
    (finish cfg dc) >>= fun dc1 =>
    (textBelowL cfg num inCell ks) >>= fun rest =>
    pure (dc1.root :: rest)
end

/-- `new_depth_collector(file, root)`; `inCell` is whether `root` has a `w:tc` ancestor -/
def newDepthCollector (cfg : PartCfg) (num : Dict Str (List NumAttr)) (root : Xml) (inCell : Bool := false) : M DC :=
  (walk cfg num inCell { bullets := { numAttrs := num } } root) >>= fun s => finish cfg s

end D2P
