import D2P.Model.Numbering
import D2P.Model.Merge
/-!
# `depth_collector.py`
-/
namespace D2P

structure Run where
  style : List Str := []
  text : Str := []
  deriving Repr, Inhabited, DecidableEq

abbrev Lineage := List (Option Str)   -- five slots; slot 0 is "document"

structure Par where
  elem : Option Nat            -- identity of the source `w:p` (None for synthetic paragraphs)
  htmlStyle : List Str
  style : Str
  lineage : Lineage
  runs : List Run
  listPos : Option Str × List Nat := (none, [])
  copy : Bool := false         -- produced by `copy.deepcopy` / `new_empty_par` for a merged cell
  deriving Repr, Inhabited, DecidableEq

inductive Nest where
  | par (p : Par)
  | list (items : List Nest)
  deriving Repr, Inhabited

/-- `Run.__str__` -/
def Run.str (r : Run) : M Str :=
  if r.text.isEmpty then pure [] else
  (htmlClose r.style) >>= fun c => pure (htmlOpen r.style ++ r.text ++ c)

def runStrs : List Run → M (List Str)
  | [] => pure []
  | r :: rs => (r.str) >>= fun s => (runStrs rs) >>= fun ss => pure (if s.isEmpty then ss else s :: ss)

/-- `Par.run_strings` -/
def Par.runStrings (p : Par) : M (List Str) :=
  (runStrs p.runs) >>= fun rs =>
  if p.htmlStyle.isEmpty then pure rs else
  (htmlClose p.htmlStyle) >>= fun c => pure ([htmlOpen p.htmlStyle] ++ rs ++ [c])

def emptyLineage : Lineage := [some (lit "document"), some [], some [], some [], some []]
def initLineage : Lineage := [some (lit "document"), none, none, none, none]
def tableLineage : Lineage := [some (lit "document"), some (lit "tbl"), some (lit "tr"), some (lit "tc"), some (lit "p")]

/-- `Par.new_empty_par(None)` -/
def emptyPar : Par := { elem := none, htmlStyle := [], style := [], lineage := emptyLineage, runs := [], copy := true }

structure DC where
  root : List Nest := []
  depth : Nat := 1
  lineage : Lineage := initLineage
  openPars : List Par := []            -- stack, top = last
  queued : List Run := []
  ranges : Dict Str (Nat × Nat) := []
  bullets : Bullets := { numAttrs := [] }
  deriving Inhabited

/-- modify the list reached from `xs` by following last children `d` times -/
def modAt : Nat → List Nest → (List Nest → M (List Nest)) → M (List Nest)
  | 0, xs, f => f xs
  | d+1, xs, f =>
    match xs.getLast? with
    | some (.list ys) => (modAt d ys f) >>= fun ys' => pure (xs.dropLast ++ [.list ys'])
    | _ => .error .modelLimit

def DC.appendAtCaret (s : DC) (x : Nest) : M DC :=
  (modAt (s.depth - 1) s.root (fun xs => pure (xs ++ [x]))) >>= fun r => pure { s with root := r }

/-- `_drop_caret` -/
def DC.drop (s : DC) : M DC :=
  if s.depth ≥ 4 then .error .caretDepth else
  (s.appendAtCaret (.list [])) >>= fun s1 => pure { s1 with depth := s1.depth + 1 }

/-- `_raise_caret` -/
def DC.raise (s : DC) : M DC :=
  if s.depth == 1 then .error .caretDepth else pure { s with depth := s.depth - 1 }

/-- `set_caret(depth, elem)`, `depth ≠ None`; recursion depth is at most 4 -/
def DC.setCaretAux : Nat → DC → Nat → Option Str → M DC
  | 0, _, _, _ => .error .modelLimit
  | f+1, s, d, name =>
    if s.depth == d then pure { s with lineage := s.lineage.set d name }
    else if s.depth < d then (s.drop) >>= fun s1 => DC.setCaretAux f s1 d name
    else ({ s with lineage := s.lineage.set d none } : DC).raise >>= fun s1 => DC.setCaretAux f s1 d name

def DC.setCaret (s : DC) (d : Option Nat) (name : Option Str) : M DC :=
  match d with | none => pure s | some d => DC.setCaretAux 8 s d name

mutual
def leafParsT : Nest → List Par
  | .par p => [p]
  | .list xs => leafParsL xs
def leafParsL : List Nest → List Par
  | [] => []
  | x :: xs => leafParsT x ++ leafParsL xs
end

def countStrings : List Par → M Nat
  | [] => pure 0
  | p :: ps => (p.runStrings) >>= fun rs => (countStrings ps) >>= fun n => pure (rs.length + n)

/-- run strings of a paragraph that is still open: its closing tag has not been emitted -/
def openParCount : List Par → M Nat
  | [] => pure 0
  | p :: ps => (p.runStrings) >>= fun rs => (openParCount ps) >>= fun n =>
      pure ((if p.htmlStyle.isEmpty then rs.length else rs.length - 1) + n)

/-- `_count_runs` -/
def DC.countRuns (s : DC) : M Nat :=
  (countStrings (leafParsL s.root)) >>= fun a => (openParCount s.openPars) >>= fun b => pure (a + b)

def DC.startRange (s : DC) (id : Str) : M DC :=
  (s.countRuns) >>= fun c => pure { s with ranges := s.ranges.set id (c, c) }

def DC.endRange (s : DC) (id : Str) : M DC :=
  (s.countRuns) >>= fun c =>
  pure { s with ranges := s.ranges.set id (((s.ranges.get? id).getD (c, c)).1, c) }

/-- `commence_paragraph(elem)`; `inCell` = the element has a `w:tc` ancestor -/
def DC.commencePar (html : Bool) (s : DC) (elem : Option Xml) (inCell : Bool) : M DC :=
  (s.setCaret (some 4) (elem.map Xml.localname)) >>= fun s1 =>
  (match elem with | some e => parFormatting html e | none => pure []) >>= fun hs =>
  (match elem with | some e => getPStyle e | none => pure []) >>= fun st =>
  let lin := if elem.isSome && inCell then tableLineage else s1.lineage
  let p : Par := { elem := elem.bind Xml.id?, htmlStyle := hs, style := st, lineage := lin, runs := s1.queued }
  pure { s1 with queued := [], openPars := s1.openPars ++ [p] }

/-- `conclude_paragraph` -/
def DC.concludePar (s : DC) : M DC :=
  match s.openPars.getLast? with
  | none => pure s
  | some p =>
    (({ s with openPars := s.openPars.dropLast } : DC).setCaret (some 4) none) >>= fun s1 =>
    s1.appendAtCaret (.par p)

/-- `conclude_implicit_paragraph`, called (by `TagRunner.open` / `close`) for an element that has a depth `d`: a paragraph
that was opened implicitly for inline content outside any `w:p` ends where the next block begins or the enclosing block ends -/
def DC.flushImplicit (s : DC) (d : Option Nat) : M DC :=
  match d with
  | none => pure s
  | some _ =>
    match s.openPars.getLast? with
    | some p => if p.elem.isNone then s.concludePar else pure s
    | none => pure s

/-- the first two lines of `TagRunner.open`: close an implicit paragraph (if the element has a depth), then move the caret -/
def DC.setCaretOpen (s : DC) (d : Option Nat) (name : Option Str) : M DC :=
  (s.flushImplicit d) >>= fun s0 => s0.setCaret d name

/-- the `_open_par` property: create an anonymous paragraph if none is open -/
def DC.ensurePar (html : Bool) (s : DC) : M DC :=
  if s.openPars.isEmpty then s.commencePar html none false else pure s

def DC.modTop (s : DC) (f : Par → Par) : DC :=
  match s.openPars.getLast? with
  | none => s
  | some p => { s with openPars := s.openPars.dropLast ++ [f p] }

/-- `commence_run(elem)` -/
def DC.commenceRun (html : Bool) (s : DC) (elem : Option Xml) : M DC :=
  (match elem with | some e => runFormatting html e | none => pure []) >>= fun st =>
  (s.ensurePar html) >>= fun s1 =>
  pure (s1.modTop fun p => { p with runs := p.runs ++ [{ style := st }] })

/-- the `_open_run` property: last run of the open paragraph, created if missing -/
def DC.ensureRun (html : Bool) (s : DC) : M DC :=
  (s.ensurePar html) >>= fun s1 =>
  pure (s1.modTop fun p => if p.runs.isEmpty then { p with runs := [{}] } else p)

def appendToLastRun (p : Par) (t : Str) : Par :=
  match p.runs.getLast? with
  | some r => { p with runs := p.runs.dropLast ++ [{ r with text := r.text ++ t }] }
  | none => p

/-- `add_code_into_open_run` -/
def DC.addCode (html : Bool) (s : DC) (t : Str) : M DC :=
  (s.ensureRun html) >>= fun s1 => pure (s1.modTop fun p => appendToLastRun p t)

/-- the three `str.replace` calls of `add_text_into_open_run` -/
def escapeHtml (t : Str) : Str :=
  replaceAll (replaceAll (replaceAll t ['&'] (lit "&amp;")) ['<'] (lit "&lt;")) ['>'] (lit "&gt;")

/-- `add_text_into_open_run` -/
def DC.addText (html : Bool) (s : DC) (t : Str) : M DC :=
  s.addCode html (if html then escapeHtml t else t)

def lastRunStyle (p : Par) : List Str := match p.runs.getLast? with | some r => r.style | none => []

/-- `insert_text_as_new_run` -/
def DC.insertNewRun (html : Bool) (s : DC) (t : Str) : M DC :=
  (s.ensureRun html) >>= fun s1 =>
  pure (s1.modTop fun p => { p with runs := p.runs ++ [{ style := [], text := t }, { style := lastRunStyle p }] })

/-- `queue_run_for_next_paragraph` -/
def DC.queueRun (s : DC) (t : Str) : DC := { s with queued := s.queued ++ [{ style := [], text := t }] }

end D2P
