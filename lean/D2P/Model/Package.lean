import D2P.Model.Walk
/-!
# `docx_context.collect_rels`, `docx_reader.File`, `docx_reader.DocxReader` (pure part)
-/
namespace D2P

inductive Member where
  | xml (root : Xml)        -- parses as XML (what `etree.fromstring(zipf.read(name))` returns)
  | bytes (hex : Str)       -- anything else; content kept as a hex string
  deriving Inhabited

/-- the archive as `zipfile` presents it: names in directory order -/
structure Archive where
  members : List (Str × Member)
  deriving Inhabited

/-- `zipf.read(name)`: the *last* member with that name; `KeyError` if absent -/
def Archive.read (a : Archive) (name : Str) : M Member :=
  match (a.members.reverse.find? (fun m => m.1 == name)) with
  | some m => pure m.2
  | none => .error .keyError

def Archive.readXml (a : Archive) (name : Str) : M Xml :=
  (a.read name) >>= fun m => match m with | .xml r => pure r | .bytes _ => .error .xmlSyntax

def Archive.namelist (a : Archive) : List Str := a.members.map (·.1)

/-! ## `pathlib.PurePosixPath`, as far as the code uses it -/

structure PPath where
  abs : Bool
  parts : List Str
  deriving Repr, DecidableEq, Inhabited

def PPath.ofStr (s : Str) : PPath :=
  { abs := s.head? == some '/', parts := (splitOnChar '/' s).filter (fun p => !p.isEmpty && p != ['.']) }

def PPath.parent (p : PPath) : PPath := { p with parts := p.parts.dropLast }

def PPath.name (p : PPath) : Str := p.parts.getLast?.getD []

def PPath.toStr (p : PPath) : Str :=
  if p.abs then '/' :: sjoinSep ['/'] p.parts
  else if p.parts.isEmpty then ['.'] else sjoinSep ['/'] p.parts

def PPath.isRelativeTo (t d : PPath) : Bool := t.abs == d.abs && d.parts.isPrefixOf t.parts

def PPath.join (d t : PPath) : PPath := if t.abs then t else { d with parts := d.parts ++ t.parts }

/-- `s.lstrip("/.")` -/
def lstripSlashDot (s : Str) : Str := s.dropWhile (fun c => c == '/' || c == '.')

/-- `os.path.split` -/
def osPathSplit (p : Str) : Str × Str :=
  let r := p.reverse
  let tailR := r.takeWhile (· != '/')
  let headR := r.dropWhile (· != '/')
  let head := headR.reverse
  -- strip trailing slashes from head unless it is all slashes
  let head' := if head.all (· == '/') then head else (head.reverse.dropWhile (· == '/')).reverse
  (head', tailR.reverse)

/-! ## relationships and `File` -/

structure Rel where
  id : Str
  type : Str        -- `Path(Type).name`
  target : Str
  dir : Str         -- `str(Path(rels_name).parent)`
  deriving Repr, DecidableEq, Inhabited

def attrNoNs (x : Xml) (name : String) : M Str :=
  match x.attrGet ⟨none, lit name⟩ with | some v => pure v | none => .error .keyError

/-- `File.__init__` for one `<Relationship>` element -/
def relOfElem (dir : Str) (x : Xml) : M Rel :=
  (attrNoNs x "Id") >>= fun id =>
  (attrNoNs x "Type") >>= fun ty =>
  (attrNoNs x "Target") >>= fun tg =>
  pure { id := id, type := (PPath.ofStr ty).name, target := tg, dir := dir }

def relsOfKids (dir : Str) : List Xml → M (List Rel)
  | [] => pure []
  | k :: ks =>
    if !k.isElem then relsOfKids dir ks else
    (relOfElem dir k) >>= fun r => (relsOfKids dir ks) >>= fun rs => pure (r :: rs)

def endsWithRels (n : Str) : Bool := n.reverse.take 5 == (lit ".rels").reverse

/-- `collect_rels` + `DocxReader.files` for one rels member -/
def filesOfRels (a : Archive) (name : Str) : M (List Rel) :=
  (a.readXml name) >>= fun root =>
  let dir := (PPath.ofStr name).parent.toStr
  (relsOfKids dir root.kids) >>= fun rs =>
  pure (rs ++ [{ id := lit "none", type := (PPath.ofStr ((root.tag?.bind (·.ns)).getD [])).name, target := name, dir := dir }])

def filesLoop (a : Archive) : List Str → M (List Rel)
  | [] => pure []
  | n :: ns => (filesOfRels a n) >>= fun fs => (filesLoop a ns) >>= fun rest => pure (fs ++ rest)

/-- `DocxReader.files` (dict keyed by member name: a repeated name is processed once, at its first position) -/
def Archive.files (a : Archive) : M (List Rel) :=
  filesLoop a ((a.namelist.filter endsWithRels).eraseDups)

/-- `File.path` -/
def Rel.path (r : Rel) : Str :=
  let d := (PPath.ofStr r.dir).parent
  let t := PPath.ofStr r.target
  -- `if target.is_relative_to(dir_): dirs = dir_ / target.relative_to(dir_) else: dirs = dir_ / target`
  let joined := if t.isRelativeTo d then d.join { abs := false, parts := t.parts.drop d.parts.length } else d.join t
  lstripSlashDot joined.toStr

/-- `File._rels_path` -/
def Rel.relsPath (r : Rel) : Str :=
  let s := osPathSplit r.path
  sjoinSep ['/'] [s.1, lit "_rels", s.2 ++ lit ".rels"]

/-- `File.rels_element` -/
def relsElement (a : Archive) (files : List Rel) (r : Rel) : M (Option Xml) :=
  match files.filter (fun f => f.target == r.relsPath) with
  | [f] => (a.readXml f.path) >>= fun root => pure (some root)
  | _ => pure none

/-- the dict comprehension of `File.rels`: a later duplicate Id overwrites the value -/
def idTargets : List Xml → Dict Str Str → M (Dict Str Str)
  | [], d => pure d
  | k :: ks, d =>
    if !k.isElem then idTargets ks d else
    (attrNoNs k "Id") >>= fun id => (attrNoNs k "Target") >>= fun tg => idTargets ks (Dict.set d id tg)

/-- `File.rels` -/
def partRels (a : Archive) (files : List Rel) (r : Rel) : M (Dict Str Str) :=
  (relsElement a files r) >>= fun e => match e with | some root => idTargets root.kids [] | none => pure []

/-- insertion sort by path, stable (`sorted(..., key=attrgetter("path"))`) -/
def insertRel (x : Rel) : List Rel → List Rel
  | [] => [x]
  | y :: ys => if strLt x.path y.path then x :: y :: ys else y :: insertRel x ys
def sortRels (l : List Rel) : List Rel := l.reverse.foldl (fun acc x => insertRel x acc) []

/-- `files_of_type(type_)` -/
def filesOfType (files : List Rel) (types : List Str) : List Rel := sortRels (files.filter fun f => types.contains f.type)

def contentTypes : List Str := Gen.contentFileTypes.map lit

/-- `DocxReader.numId2Attrs` -/
def numId2Attrs (a : Archive) : M (Dict Str (List NumAttr)) :=
  match (a.readXml (lit "word/numbering.xml")) >>= collectNumAttrs with
  | .ok d => pure d
  | .error .keyError => pure []
  | .error e => .error e

structure Opts where
  html : Bool := false
  dup : Bool := true
  deriving Repr, Inhabited, DecidableEq

/-- `File.root_element` for a content part: parse and merge -/
def rootElement (o : Opts) (a : Archive) (files : List Rel) (r : Rel) : M (PartCfg × Xml) :=
  (a.readXml r.path) >>= fun root =>
  if contentTypes.contains r.type then
    -- `_elem_key` asks for `file.rels` only when it meets an element carrying `r:id`;
    -- computing it eagerly differs only in *when* an error of the rels part surfaces
    (partRels a files r) >>= fun rels =>
    let cfg : PartCfg := { html := o.html, dup := o.dup, rels := rels }
    (mergeElems cfg root) >>= fun m => pure (cfg, m)
  else pure ({ html := o.html, dup := o.dup, rels := [] }, root)

/-- `File.depth_collector` -/
abbrev NumTable := Dict Str (List NumAttr)

/-- `File.depth_collector`; `numM` is the (cached) value of `DocxReader.numId2Attrs` -/
def partCollector (o : Opts) (a : Archive) (files : List Rel) (numM : M NumTable) (r : Rel) : M DC :=
  (rootElement o a files r) >>= fun cr =>
  (partRels a files r) >>= fun rels =>
  numM >>= fun num =>
  newDepthCollector { cr.1 with rels := rels } num cr.2

def partsContent (o : Opts) (a : Archive) (files : List Rel) (numM : M NumTable) : List Rel → M (List Nest)
  | [] => pure []
  | r :: rs => (partCollector o a files numM r) >>= fun dc => (partsContent o a files numM rs) >>= fun rest => pure (dc.root ++ rest)

/-- `DocxContent._get_pars(type_)`, given the cached `DocxReader.files` and `numId2Attrs` -/
def getParsF (o : Opts) (a : Archive) (files : List Rel) (numM : M NumTable) (type : String) : M (List Nest) :=
  partsContent o a files numM (filesOfType files [lit type])

/-- `DocxContent._get_pars(type_)` -/
def getPars (o : Opts) (a : Archive) (type : String) : M (List Nest) :=
  (a.files) >>= fun files => getParsF o a files (numId2Attrs a) type

/-- `pull_image_files(None)`: name ↦ member content -/
def imagesLoop (a : Archive) : List Rel → Dict Str Str → M (Dict Str Str)
  | [], d => pure d
  | r :: rs, d =>
    match a.read r.path with
    | .ok (.bytes h) => imagesLoop a rs (Dict.set d (PPath.ofStr r.target).name h)
    | .ok (.xml _) => imagesLoop a rs (Dict.set d (PPath.ofStr r.target).name (lit "<xml>"))
    | .error .keyError => imagesLoop a rs d
    | .error e => .error e

def images (a : Archive) : M (Dict Str Str) :=
  (a.files) >>= fun files => imagesLoop a (filesOfType files [lit "image"]) []

/-- `collect_docProps` -/
def coreProperties (a : Archive) : M (Dict Str (Option Str)) :=
  (a.files) >>= fun files =>
  match filesOfType files [lit "core-properties"] with
  | [] => pure []
  | r :: _ => (a.readXml r.path) >>= fun root =>
      pure ((root.kids.filter Xml.isElem).foldl (fun d k => Dict.set d k.localname k.text?) [])

end D2P
