import D2P.Model.Xml
import D2P.Model.Generated
/-!
# `text_runs.py` and the formatter half of `attribute_register.py`
-/
namespace D2P

/-- one step of the loop in `_gather_sub_vals` -/
def gatherStep (d : Dict Str (Option Str)) (sub : Xml) : M (Dict Str (Option Str)) :=
  if !sub.isElem then pure d else
  (sub.attrQ (lit "w") (lit "val")) >>= fun v =>
  pure (d.set sub.localname (match v with | some s => if s.isEmpty then none else some s | none => none))

def gatherFold : List Xml → Dict Str (Option Str) → M (Dict Str (Option Str))
  | [], d => pure d
  | k :: ks, d => (gatherStep d k) >>= fun d' => gatherFold ks d'

/-- `gather_Pr(element)` (no `tag` argument): properties of the first `<tag>Pr` child -/
def gatherPr (x : Xml) : M (Dict Str (Option Str)) :=
  match x.tag? with
  | none => pure []
  | some t =>
    match x.findChild ⟨t.ns, t.name ++ lit "Pr"⟩ with
    | none => pure []
    | some pr => gatherFold pr.kids []

/-- `get_pStyle` -/
def getPStyle (p : Xml) : M Str :=
  (gatherPr p) >>= fun d => pure (((d.get? (lit "pStyle")).getD none).getD [])

def lastChar (s : Str) : Str := match s.getLast? with | some c => [c] | none => []

def Gen.FmtKind.apply (k : Gen.FmtKind) (tag val : Str) : Str :=
  match k with
  | .tagItself => tag
  | .const s => lit s
  | .valPrefix3 => val.take 3
  | .wrapVal pre post => lit pre ++ val ++ lit post
  | .headingLevel => 'h' :: lastChar tag

/-- `_is_switched_off` -/
def isSwitchedOff (tag : Str) (val : Option Str) : Bool :=
  if Gen.toggleProperties.any (fun t => lit t == tag) then
    (match val with | some v => Gen.offValues.any (fun o => lit o == v) | none => false)
  else if tag == lit "u" then val == some (lit "none")
  else if tag == lit "vertAlign" then !(val == some (lit "superscript") || val == some (lit "subscript"))
  else false

/-- stable insertion sort by code points (`sorted` on a list of `str`) -/
def insertStr (x : Str) : List Str → List Str
  | [] => [x]
  | y :: ys => if strLt x y then x :: y :: ys else y :: insertStr x ys
def sortStrs : List Str → List Str
  | [] => []
  | x :: xs => insertStr x (sortStrs xs)

def lookupFormatter (tag : Str) : Option Gen.Formatter := Gen.formatters.find? (fun f => lit f.key == tag)

/-- recognised, switched-on properties with their rendered strings, in dict order -/
def renderedProps (pr : Dict Str (Option Str)) : List (Gen.Formatter × Str) :=
  pr.filterMap fun kv =>
    match lookupFormatter kv.1 with
    | some f => if isSwitchedOff kv.1 kv.2 then none else some (f, f.kind.apply kv.1 (kv.2.getD []))
    | none => none

/-- the distinct `(container, property)` groups with a property, sorted as Python sorts the tuples -/
def groupKeys (hits : List (Gen.Formatter × Str)) : List (Str × Str) :=
  let ks := hits.filterMap fun h => match h.1.container, h.1.property with
    | some c, some p => some (lit c, lit p) | _, _ => none
  let ks := ks.eraseDups
  -- sort by (container, property)
  let lt (a b : Str × Str) : Bool := strLt a.1 b.1 || (a.1 == b.1 && strLt a.2 b.2)
  ks.foldr (fun x acc => (acc.takeWhile (fun y => lt y x)) ++ [x] ++ (acc.dropWhile (fun y => lt y x))) []

/-- `_format_Pr_into_html(Pr2val, xml2html)` with `xml2html = XML2HTML_FORMATTER`
(html on) or `{}` (html off) -/
def formatPr (html : Bool) (pr : Dict Str (Option Str)) : List Str :=
  if !html then [] else
  let hits := renderedProps pr
  let keys := groupKeys hits
  -- con2pro_for: container ↦ [ 'property="a;b"' ... ] in sorted (container, property) order
  let containers := (keys.map (·.1)).eraseDups   -- already sorted by container
  let spans := containers.map fun c =>
    let props := (keys.filter (·.1 == c)).map fun k =>
      let vals := hits.filterMap fun h => if h.1.container == some (Str.toString k.1) && h.1.property == some (Str.toString k.2) then some h.2 else none
      k.2 ++ lit "=\"" ++ sjoinSep [';'] (sortStrs vals) ++ lit "\""
    c ++ [' '] ++ sjoinSep [' '] props
  let plain := hits.filterMap fun h => if h.1.container.isNone && h.1.property.isNone then some h.2 else none
  spans ++ sortStrs plain

def runFormatting (html : Bool) (r : Xml) : M (List Str) := (gatherPr r) >>= fun d => pure (formatPr html d)

def parFormatting (html : Bool) (p : Xml) : M (List Str) :=
  (getPStyle p) >>= fun st => pure (formatPr html [(st, none)])

/-- `get_html_formatting` -/
def htmlFormatting (html : Bool) (x : Xml) : M (List Str) :=
  if x.ptag == lit "w:r" then runFormatting html x
  else if x.ptag == lit "w:p" then parFormatting html x
  else pure []

/-- `html_open` -/
def htmlOpen (style : List Str) : Str := sjoin (style.map fun x => ['<'] ++ x ++ ['>'])

def isPyWs (c : Char) : Bool := c == ' ' || c == '\t' || c == '\n' || c == '\r' || c.toNat == 0x0b || c.toNat == 0x0c

/-- `x.split()[0]` -/
def firstWord (x : Str) : M Str :=
  let w := (x.dropWhile isPyWs).takeWhile (fun c => !isPyWs c)
  if w.isEmpty then .error .indexError else pure w

def closeTags : List Str → M Str
  | [] => pure []
  | x :: xs => (firstWord x) >>= fun w => (closeTags xs) >>= fun rest => pure (lit "</" ++ w ++ ['>'] ++ rest)

/-- `html_close` -/
def htmlClose (style : List Str) : M Str := closeTags style.reverse

end D2P
