import D2P.Model.Package
/-!
# `docx_output.py`, `depth_collector.get_par_strings`, `docx_text.flatten_text`
-/
namespace D2P

/-- nested lists of strings as returned to the caller -/
inductive Tree where
  | leaf (s : Str)
  | node (items : List Tree)
  deriving Repr, Inhabited

/-- the four nested `for` loops of `get_par_strings`: iterating a `Par` is a `TypeError`,
asking a list for `.run_strings` an `AttributeError` -/
def runsLevel : Nat → Nest → M Tree
  | 0, .par p => (p.runStrings) >>= fun rs => pure (.node (rs.map .leaf))
  | 0, .list _ => .error .attributeError
  | _+1, .par _ => .error .typeError
  | n+1, .list xs =>
    let rec go : List Nest → M (List Tree)
      | [] => pure []
      | y :: ys => (runsLevel n y) >>= fun t => (go ys) >>= fun ts => pure (t :: ts)
    (go xs) >>= fun ts => pure (.node ts)

def mapLevel (f : Nest → M Tree) : List Nest → M (List Tree)
  | [] => pure []
  | y :: ys => (f y) >>= fun t => (mapLevel f ys) >>= fun ts => pure (t :: ts)

/-- `get_par_strings(nested_pars)` -/
def getParStrings (pars : List Nest) : M (List Tree) := mapLevel (runsLevel 3) pars

def joinLeaves : List Tree → M Str
  | [] => pure []
  | .leaf s :: ts => (joinLeaves ts) >>= fun r => pure (s ++ r)
  | .node _ :: _ => .error .typeError

/-- `_join_runs`: four loops, then `"".join(par)` -/
def joinLevel : Nat → Tree → M Tree
  | 0, .node rs => (joinLeaves rs) >>= fun s => pure (.leaf s)
  | 0, .leaf s => pure (.leaf s)         -- "".join("abc") == "abc"
  | _+1, .leaf _ => .error .typeError    -- would iterate characters; never reached (C01)
  | n+1, .node xs =>
    let rec go : List Tree → M (List Tree)
      | [] => pure []
      | y :: ys => (joinLevel n y) >>= fun t => (go ys) >>= fun ts => pure (t :: ts)
    (go xs) >>= fun ts => pure (.node ts)

def joinRuns (runs : List Tree) : M (List Tree) :=
  let rec go : List Tree → M (List Tree)
    | [] => pure []
    | y :: ys => (joinLevel 3 y) >>= fun t => (go ys) >>= fun ts => pure (t :: ts)
  go runs

/-- items at depth `d` below a list of trees, in order (`iter_at_depth`) -/
def itemsAt : Nat → List Tree → M (List Tree)
  | 0, ts => pure ts
  | d+1, ts =>
    let rec go : List Tree → M (List Tree)
      | [] => pure []
      | .node xs :: ys => (itemsAt d xs) >>= fun a => (go ys) >>= fun b => pure (a ++ b)
      | .leaf _ :: _ => .error .typeError
    go ts

def parTexts : List Tree → M (List Str)
  | [] => pure []
  | .node rs :: ts => (joinLeaves rs) >>= fun s => (parTexts ts) >>= fun r => pure (s :: r)
  | .leaf s :: ts => (parTexts ts) >>= fun r => pure (s :: r)

/-- `flatten_text(runs)` -/
def flattenText (runs : List Tree) : M Str :=
  (itemsAt 3 runs) >>= fun ps => (parTexts ps) >>= fun ss => pure (sjoinSep (lit "\n\n") ss)

/-! ## the attributes of `DocxContent` -/

def partTypes : List String := ["header", "officeDocument", "footer", "footnotes", "endnotes"]

/-- the five `_get_pars` results every other attribute is computed from -/
abbrev ParsOf := String → M (List Nest)     -- "header" | "officeDocument" | "footer" | "footnotes" | "endnotes"

def parsOf (o : Opts) (a : Archive) : ParsOf := fun t => getPars o a t

/-- `<part>_pars`; `part ∈ header, body, footer, footnotes, endnotes, document` -/
def viewParsFrom (g : ParsOf) (part : String) : M (List Nest) :=
  if part == "document" then
    (g "header") >>= fun h => (g "officeDocument") >>= fun b => (g "footer") >>= fun f =>
    (g "footnotes") >>= fun fn => (g "endnotes") >>= fun en => pure (h ++ b ++ f ++ fn ++ en)
  else if part == "body" then g "officeDocument"
  else g part

def runsOne (g : ParsOf) (p : String) : M (List Tree) := (viewParsFrom g p) >>= getParStrings

/-- `<part>_runs` -/
def viewRunsFrom (g : ParsOf) (part : String) : M (List Tree) :=
  if part == "document" then
    (runsOne g "header") >>= fun h => (runsOne g "body") >>= fun b => (runsOne g "footer") >>= fun f =>
    (runsOne g "footnotes") >>= fun fn => (runsOne g "endnotes") >>= fun en => pure (h ++ b ++ f ++ fn ++ en)
  else runsOne g part

def plainOne (g : ParsOf) (p : String) : M (List Tree) := (viewRunsFrom g p) >>= joinRuns

/-- `<part>` (plain strings) -/
def viewPlainFrom (g : ParsOf) (part : String) : M (List Tree) :=
  if part == "document" then
    (plainOne g "header") >>= fun h => (plainOne g "body") >>= fun b => (plainOne g "footer") >>= fun f =>
    (plainOne g "footnotes") >>= fun fn => (plainOne g "endnotes") >>= fun en => pure (h ++ b ++ f ++ fn ++ en)
  else plainOne g part

def viewPars (o : Opts) (a : Archive) := viewParsFrom (parsOf o a)
def viewRuns (o : Opts) (a : Archive) := viewRunsFrom (parsOf o a)
def viewPlain (o : Opts) (a : Archive) := viewPlainFrom (parsOf o a)

/-- `DocxContent.text` -/
def docTextFrom (g : ParsOf) : M Str := (viewRunsFrom g "document") >>= flattenText
def docText (o : Opts) (a : Archive) : M Str := docTextFrom (parsOf o a)

/-! ## comments -/

def allLeaves : List Tree → M (List Str)
  | ts => (itemsAt 4 ts) >>= fun ls =>
    let rec go : List Tree → M (List Str)
      | [] => pure []
      | .leaf s :: r => (go r) >>= fun x => pure (s :: x)
      | .node _ :: _ => .error .typeError
    go ls

structure Comment where
  reference : Str
  author : Str
  date : Str
  text : Str
  deriving Repr, DecidableEq, Inhabited

/-- one iteration of the loop in `DocxContent.comments`; `none` = the id has no range -/
def oneComment (o : Opts) (num : Dict Str (List NumAttr)) (rels : Dict Str Str) (ranges : Dict Str (Nat × Nat))
    (allRuns : List Str) (c : Xml) : M (Option Comment) :=
  (c.attrReq (lit "w") (lit "id")) >>= fun id =>
  (c.attrReq (lit "w") (lit "author")) >>= fun author =>
  (suppress .keyError [] (c.attrReq (lit "w") (lit "date"))) >>= fun date =>
  (newDepthCollector { html := o.html, dup := o.dup, rels := rels } num c) >>= fun dc =>
  (getParStrings dc.root) >>= fun t =>
  (flattenText t) >>= fun text =>
  match ranges.get? id with
  | none => pure none
  | some (b, e) => pure (some { reference := sjoin ((allRuns.drop b).take (e - b)), author := author, date := date, text := text })

def commentsLoop (o : Opts) (num : Dict Str (List NumAttr)) (rels : Dict Str Str) (ranges : Dict Str (Nat × Nat))
    (allRuns : List Str) : List Xml → M (Option (List Comment))
  | [] => pure (some [])
  | c :: cs =>
    (oneComment o num rels ranges allRuns c) >>= fun r =>
    match r with
    | none => pure none
    | some x => (commentsLoop o num rels ranges allRuns cs) >>= fun rest => pure (rest.map (x :: ·))

/-- `DocxContent.comments` -/
def comments (o : Opts) (a : Archive) : M (List Comment) :=
  (a.files) >>= fun files =>
  match filesOfType files [lit "officeDocument"] with
  | [] => .error .keyError
  | doc :: _ =>
    (partCollector o a files (numId2Attrs a) doc) >>= fun dc =>
    -- `DocxReader.comments`
    (match filesOfType files [lit "comments"] with
      | [] => pure (none, [])
      | cf :: _ => (a.readXml cf.path) >>= fun root => pure (some cf, root.kids.filter Xml.isElem)) >>= fun ce =>
    if dc.ranges.length != ce.2.length then pure [] else
    if ce.2.isEmpty then pure [] else
    match ce.1 with
    | none => pure []
    | some cf =>
      (getParStrings dc.root) >>= fun runs =>
      (allLeaves runs) >>= fun allRuns =>
      (partRels a files cf) >>= fun rels =>
      (numId2Attrs a) >>= fun num =>
      (commentsLoop o num rels dc.ranges allRuns ce.2) >>= fun r => pure (r.getD [])

end D2P
