import D2P.Proofs.Flush
import D2P.Check.C01
/-!
# The collector's tree always has the four-level shape (lemmas for C01)
-/
namespace D2P

theorem wfL_append (n : Nat) (xs ys : List Nest) : wfL n (xs ++ ys) = (wfL n xs && wfL n ys) := by
  induction xs with
  | nil => simp [wfL]
  | cons x xs ih => simp [wfL, ih, Bool.and_assoc]

theorem wfL_dropLast (n : Nat) (xs : List Nest) (h : wfL n xs = true) : wfL n xs.dropLast = true := by
  induction xs with
  | nil => simp [wfL]
  | cons x xs ih =>
    cases xs with
    | nil => simp [wfL]
    | cons y ys =>
      simp only [List.dropLast_cons_cons, wfL, Bool.and_eq_true] at *
      exact ⟨h.1, ih h.2⟩

theorem wfL_getLast (n : Nat) (xs : List Nest) (x : Nest) (h : wfL n xs = true) (hl : xs.getLast? = some x) :
    wf n x = true := by
  induction xs with
  | nil => simp at hl
  | cons y ys ih =>
    cases ys with
    | nil => simp at hl; subst hl; simpa [wfL] using h
    | cons z zs =>
      rw [List.getLast?_cons_cons] at hl
      have h2 : wfL n (z :: zs) = true := by
        simp only [wfL, Bool.and_eq_true] at h ⊢; exact h.2
      exact ih h2 hl

theorem wfL_getElem (n : Nat) (xs : List Nest) (i : Nat) (x : Nest) (h : wfL n xs = true) (hi : xs[i]? = some x) :
    wf n x = true := by
  induction xs generalizing i with
  | nil => simp at hi
  | cons y ys ih =>
    simp only [wfL, Bool.and_eq_true] at h
    cases i with
    | zero => simp at hi; subst hi; exact h.1
    | succ i => simp at hi; exact ih i h.2 hi

theorem wfL_set (n : Nat) (xs : List Nest) (i : Nat) (x : Nest) (h : wfL n xs = true) (hx : wf n x = true) :
    wfL n (xs.set i x) = true := by
  induction xs generalizing i with
  | nil => simp [wfL]
  | cons y ys ih =>
    simp only [wfL, Bool.and_eq_true] at h
    cases i with
    | zero => simp [wfL, hx, h.2]
    | succ i => simp [wfL, h.1, ih i h.2]

theorem wfL_modify (n : Nat) (xs : List Nest) (i : Nat) (f : Nest → Nest) (h : wfL n xs = true)
    (hf : ∀ x, wf n x = true → wf n (f x) = true) : wfL n (xs.modify i f) = true := by
  induction xs generalizing i with
  | nil => simp [wfL]
  | cons y ys ih =>
    simp only [wfL, Bool.and_eq_true] at h
    cases i with
    | zero => simp [wfL, hf y h.1, h.2]
    | succ i => simp [wfL, h.1, ih i h.2]

mutual
theorem wf_markCopy (n : Nat) : (x : Nest) → wf n x = true → wf n (markCopyT x) = true
  | .par p, h => by cases n <;> simp_all [wf, markCopyT]
  | .list xs, h => by
    cases n with
    | zero => simp [wf] at h
    | succ n => simp only [wf, markCopyT] at h ⊢; exact wfL_markCopy n xs h
theorem wfL_markCopy (n : Nat) : (xs : List Nest) → wfL n xs = true → wfL n (markCopyL xs) = true
  | [], _ => by simp [markCopyL, wfL]
  | x :: xs, h => by
    simp only [wfL, markCopyL, Bool.and_eq_true] at h ⊢
    exact ⟨wf_markCopy n x h.1, wfL_markCopy n xs h.2⟩
end

/-- modifying the list reached by `d` last-steps with a level-preserving function preserves `wfL` -/
theorem wfL_modAt (d n : Nat) (xs : List Nest) (f : List Nest → M (List Nest)) (r : List Nest)
    (hxs : wfL (n + d) xs = true)
    (hf : ∀ ys r', wfL n ys = true → f ys = .ok r' → wfL n r' = true)
    (h : modAt d xs f = .ok r) : wfL (n + d) r = true := by
  induction d generalizing xs r with
  | zero => simp only [modAt] at h; exact hf xs r hxs h
  | succ d ih =>
    simp only [modAt] at h
    split at h
    · rename_i ys hl
      have hlast := wfL_getLast _ _ _ hxs hl
      have e : n + (d + 1) = (n + d) + 1 := by omega
      rw [e] at hlast hxs ⊢
      simp only [wf] at hlast
      obtain ⟨ys', hm, h⟩ := bind_ok h
      have h := pure_ok h; subst h
      rw [wfL_append]
      simp only [Bool.and_eq_true]
      refine ⟨wfL_dropLast _ _ hxs, ?_⟩
      simp only [wfL, wf, Bool.and_true]
      exact ih ys ys' hlast hm
    · simp at h

/-- the invariant of the collector that C01 needs -/
structure Inv (s : DC) : Prop where
  shape : Shape4 s.root
  lo : 1 ≤ s.depth
  hi : s.depth ≤ 4

theorem init_inv (b : Bullets) : Inv ({ bullets := b } : DC) := ⟨by simp [Shape4, wfL], by simp, by simp⟩

theorem inv_of_same (s s' : DC) (hs : Inv s) (hr : s'.root = s.root) (hd : s'.depth = s.depth) : Inv s' :=
  ⟨by unfold Shape4; rw [hr]; exact hs.shape, by rw [hd]; exact hs.lo, by rw [hd]; exact hs.hi⟩

theorem append_par_inv (s s' : DC) (p : Par) (hs : Inv s) (hd : s.depth = 4)
    (h : s.appendAtCaret (.par p) = .ok s') : Inv s' := by
  unfold DC.appendAtCaret at h
  obtain ⟨r, hm, h⟩ := bind_ok h
  have h := pure_ok h; subst h
  refine ⟨?_, hs.lo, hs.hi⟩
  have := wfL_modAt 3 0 s.root (fun xs => pure (xs ++ [.par p])) r (by simpa [Shape4] using hs.shape)
    (by intro ys r' hy hr; have hr := pure_ok hr; subst hr; simp [wfL_append, hy, wfL, wf])
    (by simpa [hd] using hm)
  simpa [Shape4] using this

theorem drop_inv (s s' : DC) (hs : Inv s) (h : s.drop = .ok s') : Inv s' := by
  unfold DC.drop at h
  split at h
  · simp at h
  · rename_i hlt
    obtain ⟨s1, h1, h⟩ := bind_ok h
    have h := pure_ok h; subst h
    unfold DC.appendAtCaret at h1
    obtain ⟨r, hm, h1⟩ := bind_ok h1
    have h1 := pure_ok h1; subst h1
    have hlo := hs.lo
    have hd : s.depth - 1 + (3 - (s.depth - 1)) = 3 := by omega
    refine ⟨?_, by simp, by simp; omega⟩
    have := wfL_modAt (s.depth - 1) (3 - (s.depth - 1)) s.root (fun xs => pure (xs ++ [.list []])) r
      (by rw [Nat.add_comm, hd]; exact hs.shape)
      (by
        intro ys r' hy hr; have hr := pure_ok hr; subst hr
        have e : 3 - (s.depth - 1) = (3 - (s.depth - 1) - 1) + 1 := by omega
        rw [e] at hy ⊢
        simp [wfL_append, hy, wfL, wf])
      hm
    rw [Nat.add_comm, hd] at this
    exact this

theorem raise_inv (s s' : DC) (hs : Inv s) (h : s.raise = .ok s') : Inv s' := by
  unfold DC.raise at h
  split at h
  · simp at h
  · rename_i hne
    have := pure_ok h; subst this
    have := hs.lo; have := hs.hi
    refine ⟨hs.shape, ?_, ?_⟩ <;> simp at * <;> omega

theorem setCaretAux_inv (f : Nat) (s s' : DC) (d : Nat) (name : Option Str) (hs : Inv s)
    (h : DC.setCaretAux f s d name = .ok s') : Inv s' ∧ s'.depth = d := by
  induction f generalizing s with
  | zero => simp [DC.setCaretAux] at h
  | succ f ih =>
    simp only [DC.setCaretAux] at h
    split at h
    · rename_i heq
      have := pure_ok h; subst this
      exact ⟨⟨hs.shape, hs.lo, hs.hi⟩, by simpa using heq⟩
    · split at h
      · obtain ⟨s1, h1, h⟩ := bind_ok h
        exact ih s1 (drop_inv s s1 hs h1) h
      · obtain ⟨s1, h1, h⟩ := bind_ok h
        exact ih s1 (raise_inv { s with lineage := s.lineage.set d none } s1 ⟨hs.shape, hs.lo, hs.hi⟩ h1) h

theorem setCaret_inv (s s' : DC) (d : Option Nat) (name : Option Str) (hs : Inv s)
    (h : s.setCaret d name = .ok s') : Inv s' := by
  unfold DC.setCaret at h
  cases d with
  | none => have := pure_ok h; subst this; exact hs
  | some k => exact (setCaretAux_inv 8 s s' k name hs h).1

theorem setCaret_depth (s s' : DC) (k : Nat) (name : Option Str) (hs : Inv s)
    (h : s.setCaret (some k) name = .ok s') : s'.depth = k := by
  unfold DC.setCaret at h
  exact (setCaretAux_inv 8 s s' k name hs h).2

theorem modTop_same (s : DC) (f : Par → Par) : (s.modTop f).root = s.root ∧ (s.modTop f).depth = s.depth := by
  unfold DC.modTop; split <;> simp

theorem commencePar_inv (html : Bool) (s s' : DC) (e : Option Xml) (c : Bool) (hs : Inv s)
    (h : s.commencePar html e c = .ok s') : Inv s' := by
  unfold DC.commencePar at h
  obtain ⟨s1, h1, h⟩ := bind_ok h
  obtain ⟨hsx, _, h⟩ := bind_ok h
  obtain ⟨st, _, h⟩ := bind_ok h
  have := pure_ok h; subst this
  exact inv_of_same s1 _ (setCaret_inv s s1 _ _ hs h1) rfl rfl

theorem concludePar_inv (s s' : DC) (hs : Inv s) (h : s.concludePar = .ok s') : Inv s' := by
  unfold DC.concludePar at h
  split at h
  · have := pure_ok h; subst this; exact hs
  · rename_i p hp
    obtain ⟨s1, h1, h⟩ := bind_ok h
    have hs0 : Inv ({ s with openPars := s.openPars.dropLast } : DC) := inv_of_same s _ hs rfl rfl
    exact append_par_inv s1 s' p (setCaret_inv _ s1 _ _ hs0 h1) (setCaret_depth _ s1 4 none hs0 h1) h

theorem ensurePar_inv (html : Bool) (s s' : DC) (hs : Inv s) (h : s.ensurePar html = .ok s') : Inv s' := by
  unfold DC.ensurePar at h
  split at h
  · exact commencePar_inv html s s' none false hs h
  · have := pure_ok h; subst this; exact hs

theorem commenceRun_inv (html : Bool) (s s' : DC) (e : Option Xml) (hs : Inv s)
    (h : s.commenceRun html e = .ok s') : Inv s' := by
  unfold DC.commenceRun at h
  obtain ⟨st, _, h⟩ := bind_ok h
  obtain ⟨s1, h1, h⟩ := bind_ok h
  have := pure_ok h; subst this
  exact inv_of_same s1 _ (ensurePar_inv html s s1 hs h1) (modTop_same _ _).1 (modTop_same _ _).2

theorem ensureRun_inv (html : Bool) (s s' : DC) (hs : Inv s) (h : s.ensureRun html = .ok s') : Inv s' := by
  unfold DC.ensureRun at h
  obtain ⟨s1, h1, h⟩ := bind_ok h
  have := pure_ok h; subst this
  exact inv_of_same s1 _ (ensurePar_inv html s s1 hs h1) (modTop_same _ _).1 (modTop_same _ _).2

theorem addCode_inv (html : Bool) (s s' : DC) (t : Str) (hs : Inv s) (h : s.addCode html t = .ok s') : Inv s' := by
  unfold DC.addCode at h
  obtain ⟨s1, h1, h⟩ := bind_ok h
  have := pure_ok h; subst this
  exact inv_of_same s1 _ (ensureRun_inv html s s1 hs h1) (modTop_same _ _).1 (modTop_same _ _).2

theorem addText_inv (html : Bool) (s s' : DC) (t : Str) (hs : Inv s) (h : s.addText html t = .ok s') : Inv s' :=
  addCode_inv html s s' _ hs h

theorem insertNewRun_inv (html : Bool) (s s' : DC) (t : Str) (hs : Inv s) (h : s.insertNewRun html t = .ok s') :
    Inv s' := by
  unfold DC.insertNewRun at h
  obtain ⟨s1, h1, h⟩ := bind_ok h
  have := pure_ok h; subst this
  exact inv_of_same s1 _ (ensureRun_inv html s s1 hs h1) (modTop_same _ _).1 (modTop_same _ _).2

theorem startRange_inv (s s' : DC) (id : Str) (hs : Inv s) (h : s.startRange id = .ok s') : Inv s' := by
  unfold DC.startRange at h
  obtain ⟨c, _, h⟩ := bind_ok h
  have := pure_ok h; subst this; exact inv_of_same s _ hs rfl rfl

theorem endRange_inv (s s' : DC) (id : Str) (hs : Inv s) (h : s.endRange id = .ok s') : Inv s' := by
  unfold DC.endRange at h
  obtain ⟨c, _, h⟩ := bind_ok h
  have := pure_ok h; subst this; exact inv_of_same s _ hs rfl rfl

end D2P
