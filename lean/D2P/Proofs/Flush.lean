import D2P.Model.Walk
/-!
# The implicit paragraph is concluded before a block element opens or closes

`TagRunner.open` / `TagRunner.close` call `conclude_implicit_paragraph` for every element that
carries a tree depth; in the model: `DC.flushImplicit`, inside `DC.setCaretOpen` and `closeStep`.
Every invariant of the collector that `concludePar` preserves is preserved by the flush; these
lemmas let each proof family pay for the flush once.
-/
namespace D2P

theorem flushImplicit_cases (s s' : DC) (d : Option Nat) (h : s.flushImplicit d = .ok s') :
    s' = s ∨ s.concludePar = .ok s' := by
  unfold DC.flushImplicit at h
  split at h
  · exact .inl (pure_ok h).symm
  · split at h
    · split at h
      · exact .inr h
      · exact .inl (pure_ok h).symm
    · exact .inl (pure_ok h).symm

theorem flushImplicit_none (s : DC) : s.flushImplicit none = .ok s := rfl

theorem flushImplicit_preserves {P : DC → Prop} (hc : ∀ a b, P a → a.concludePar = .ok b → P b)
    (s s' : DC) (d : Option Nat) (hs : P s) (h : s.flushImplicit d = .ok s') : P s' := by
  rcases flushImplicit_cases s s' d h with e | e
  · subst e; exact hs
  · exact hc s s' hs e

theorem flushImplicit_total {P : DC → Prop} (hc : ∀ a, P a → ∃ b, a.concludePar = .ok b ∧ P b)
    (s : DC) (d : Option Nat) (hs : P s) : ∃ s', s.flushImplicit d = .ok s' ∧ P s' := by
  unfold DC.flushImplicit
  split
  · exact ⟨s, rfl, hs⟩
  · split
    · split
      · exact hc s hs
      · exact ⟨s, rfl, hs⟩
    · exact ⟨s, rfl, hs⟩

theorem setCaretOpen_preserves {P : DC → Prop} (hc : ∀ a b, P a → a.concludePar = .ok b → P b)
    (hsc : ∀ a b d n, P a → a.setCaret d n = .ok b → P b)
    (s s' : DC) (d : Option Nat) (n : Option Str) (hs : P s) (h : s.setCaretOpen d n = .ok s') : P s' := by
  unfold DC.setCaretOpen at h
  obtain ⟨s0, h0, h⟩ := bind_ok h
  exact hsc s0 s' d n (flushImplicit_preserves hc s s0 d hs h0) h

/-- the innermost open paragraph (if any) belongs to a `w:p` element -/
def NoImpl (s : DC) : Prop := ∀ p, s.openPars.getLast? = some p → p.elem.isNone = false

theorem flushImplicit_noImpl (s : DC) (d : Option Nat) (h : NoImpl s) : s.flushImplicit d = .ok s := by
  unfold DC.flushImplicit
  split
  · rfl
  · split
    · rename_i p hp
      rw [h p hp]; rfl
    · rfl

theorem setCaretOpen_noImpl (s : DC) (d : Option Nat) (n : Option Str) (h : NoImpl s) :
    s.setCaretOpen d n = s.setCaret d n := by
  unfold DC.setCaretOpen
  rw [flushImplicit_noImpl s d h]; rfl

theorem closeStep_noImpl (cfg : PartCfg) (s : DC) (x : Xml) (h : NoImpl s) :
    closeStep cfg s x = closeStepCore cfg s x := by
  unfold closeStep
  rw [flushImplicit_noImpl s _ h]; rfl

theorem NoImpl_of_openPars {s s' : DC} (e : s'.openPars = s.openPars) (h : NoImpl s) : NoImpl s' := by
  intro p hp; rw [e] at hp; exact h p hp

theorem setCaretOpen_none (s : DC) (n : Option Str) : s.setCaretOpen none n = .ok s := rfl

theorem closeStep_depth_none (cfg : PartCfg) (s : DC) (x : Xml) (h : elemDepth x = none) :
    closeStep cfg s x = closeStepCore cfg s x := by
  unfold closeStep
  rw [h]; rfl

theorem closeStep_split (cfg : PartCfg) (s s' : DC) (x : Xml) (h : closeStep cfg s x = .ok s') :
    ∃ s0, s.flushImplicit (elemDepth x) = .ok s0 ∧ closeStepCore cfg s0 x = .ok s' := by
  unfold closeStep at h
  exact bind_ok h

theorem closeStep_preserves {P : DC → Prop} (hc : ∀ a b, P a → a.concludePar = .ok b → P b)
    (cfg : PartCfg) (x : Xml) (hcore : ∀ a b, P a → closeStepCore cfg a x = .ok b → P b)
    (s s' : DC) (hs : P s) (h : closeStep cfg s x = .ok s') : P s' := by
  obtain ⟨s0, h0, h⟩ := closeStep_split cfg s s' x h
  exact hcore s0 s' (flushImplicit_preserves hc s s0 _ hs h0) h

end D2P
