import D2P.Proofs.Elems
import D2P.Proofs.RunsWalk
/-!
# Inline content in the widest sense keeps the open paragraphs' elements

`simple x` (Spec/Runs): no paragraph, cell or note starts at or below `x` — runs, text, fields, hyperlinks,
comment range markers, note references, pictures, equations.  Walking such content is `Soft`: the elements
of the open paragraphs are unchanged (or an implicit paragraph was opened because none was open).
-/
namespace D2P

theorem openStep_soft_simple (cfg : PartCfg) (s s' : DC) (x : Xml) (c : Bool) (roots : List (List Nest)) (r : Bool)
    (hx : isBlockish x = false) (h : openStep cfg s x c roots = .ok (s', r)) : Soft s s' := by
  unfold isBlockish at hx
  unfold openStep at h
  have wt : ∀ (X : M DC), (∀ t, X = .ok t → Soft s t) → ∀ r, withTrue X = .ok (s', r) → Soft s s' :=
    fun X hX r hr => hX s' (withTrue_ok hr).1
  have wf : ∀ (X : M DC), (∀ t, X = .ok t → Soft s t) → ∀ r, withFalse X = .ok (s', r) → Soft s s' :=
    fun X hX r hr => hX s' (withFalse_ok hr).1
  split at h
  · rename_i hm; rw [hm] at hx; simp at hx
  · exact (wt _ (fun t ht => commenceRun_soft cfg.html s t _ ht) r h)
  · exact (wf _ (fun t ht => by obtain ⟨id, _, ht⟩ := bind_ok ht; exact endRange_soft s t id ht) r h)
  · exact (wf _ (fun t ht => by obtain ⟨id, _, ht⟩ := bind_ok ht; exact startRange_soft s t id ht) r h)
  · exact (wt _ (fun t ht => addCode_soft cfg.html s t _ ht) r h)
  · exact (wt _ (fun t ht => addCode_soft cfg.html s t _ ht) r h)
  · exact (wf _ (fun t ht => insertNewRun_soft cfg.html s t _ ht) r h)
  · exact (wt _ (fun t ht => addCode_soft cfg.html s t _ ht) r h)
  · exact (wt _ (fun t ht => by
      obtain ⟨cde, _, ht⟩ := bind_ok ht
      split at ht
      · exact addCode_soft cfg.html s t _ ht
      · have := pure_ok ht; subst this; exact Soft.refl s) r h)
  · rename_i hm; rw [hm] at hx; simp at hx
  · rename_i hm; rw [hm] at hx; simp at hx
  · exact (wf _ (fun t ht => openHyperlink_preserves (P := fun a => Soft s a) cfg
      (fun a id b ha hb => ha.trans (startRange_soft a b id hb)) (fun a tx b ha hb => ha.trans (insertNewRun_soft cfg.html a b tx hb))
      (fun a id b ha hb => ha.trans (endRange_soft a b id hb)) s t x roots (Soft.refl s) ht) r h)
  · exact (wt _ (fun t ht => by obtain ⟨tx, _, ht⟩ := bind_ok ht; exact insertNewRun_soft cfg.html s t _ ht) r h)
  · exact (wt _ (fun t ht => by obtain ⟨tx, _, ht⟩ := bind_ok ht; exact insertNewRun_soft cfg.html s t _ ht) r h)
  · exact (wt _ (fun t ht => by obtain ⟨tx, _, ht⟩ := bind_ok ht; exact insertNewRun_soft cfg.html s t _ ht) r h)
  · exact (wt _ (fun t ht => by obtain ⟨tx, _, ht⟩ := bind_ok ht; exact insertNewRun_soft cfg.html s t _ ht) r h)
  · exact (wt _ (fun t ht => by obtain ⟨tx, _, ht⟩ := bind_ok ht; exact insertOpt_soft cfg.html s t _ ht) r h)
  · exact (wt _ (fun t ht => by obtain ⟨tx, _, ht⟩ := bind_ok ht; exact insertOpt_soft cfg.html s t _ ht) r h)
  · exact (wt _ (fun t ht => insertOpt_soft cfg.html s t _ ht) r h)
  · exact (wt _ (fun t ht => insertNewRun_soft cfg.html s t _ ht) r h)
  · have := pure_ok h; cases this; exact Soft.refl s


theorem closeStep_soft_simple (cfg : PartCfg) (s s' : DC) (x : Xml) (hx : isBlockish x = false) (hd : elemDepth x = none)
    (h : closeStep cfg s x = .ok s') : Soft s s' := by
  rw [closeStep_depth_none cfg s x hd] at h
  unfold closeStepCore at h
  unfold isBlockish at hx
  split at h
  · rename_i hm; rw [hm] at hx; simp at hx
  · exact commenceRun_soft cfg.html s s' none h
  · rename_i hm; rw [hm] at hx; simp at hx
  · have := pure_ok h; subst this; exact Soft.refl s

mutual
theorem walk_soft_simple (cfg : PartCfg) (num : Dict Str (List NumAttr)) :
    (x : Xml) → simple x = true → ∀ (c : Bool) (s s' : DC), walk cfg num c s x = .ok s' → Soft s s'
  | .elem i p t m a tx tl ks, hs, c, s, s', h => by
    have hd := elemDepth_simple _ hs
    simp only [simple, Bool.and_eq_true, Bool.not_eq_true'] at hs
    simp only [walk, hd, setCaretOpen_none, setCaret_none, ok_bind] at h
    obtain ⟨roots, _, h⟩ := bind_ok h
    obtain ⟨⟨s2, rec⟩, h2, h⟩ := bind_ok h
    have k2 := openStep_soft_simple cfg s s2 _ c roots rec hs.1 h2
    obtain ⟨s3, h3, h⟩ := bind_ok h
    have k3 : Soft s2 s3 := by
      simp only at h3
      split at h3
      · exact walkL_soft_simple cfg num ks hs.2 _ s2 s3 h3
      · have := pure_ok h3; subst this; exact Soft.refl _
    obtain ⟨s4, h4, h⟩ := bind_ok h
    have := pure_ok h; subst this
    exact (k2.trans k3).trans (closeStep_soft_simple cfg s3 s4 _ hs.1 hd h4)
  | .comment _ _, _, c, s, s', h => by simp only [walk] at h; have := pure_ok h; subst this; exact Soft.refl s
  | .pi _, _, c, s, s', h => by simp only [walk] at h; have := pure_ok h; subst this; exact Soft.refl s
theorem walkL_soft_simple (cfg : PartCfg) (num : Dict Str (List NumAttr)) :
    (xs : List Xml) → simpleL xs = true → ∀ (c : Bool) (s s' : DC), walkL cfg num c s xs = .ok s' → Soft s s'
  | [], _, c, s, s', h => by simp only [walkL] at h; have := pure_ok h; subst this; exact Soft.refl s
  | k :: ks, hs, c, s, s', h => by
    simp only [simpleL, Bool.and_eq_true] at hs
    simp only [walkL] at h
    obtain ⟨s1, h1, h⟩ := bind_ok h
    exact (walk_soft_simple cfg num k hs.1 c s s1 h1).trans (walkL_soft_simple cfg num ks hs.2 c s1 s' h)
end

end D2P
