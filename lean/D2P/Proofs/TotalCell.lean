import D2P.Proofs.Total
/-!
# Totality of `_close_table_cell`

The references `this_tbl` / `this_tr` captured before the caret is moved stay valid: the tree only
grows by appending at the right spine (`RGrow`), and the index surgery (`setRow`) keeps all lengths.
-/
namespace D2P

/-- the tree has not lost any table, and no table has lost a row -/
def RGrow (a b : List Nest) : Prop := a.length ≤ b.length ∧ ∀ ti, ti < a.length → rowCount a ti ≤ rowCount b ti

theorem RGrow.refl (a : List Nest) : RGrow a a := ⟨Nat.le_refl _, fun _ _ => Nat.le_refl _⟩
theorem RGrow.trans {a b c : List Nest} (x : RGrow a b) (y : RGrow b c) : RGrow a c :=
  ⟨Nat.le_trans x.1 y.1, fun ti h => Nat.le_trans (x.2 ti h) (y.2 ti (Nat.lt_of_lt_of_le h x.1))⟩

theorem modAt_append_len (d : Nat) (xs r : List Nest) (x : Nest)
    (h : modAt d xs (fun ys => pure (ys ++ [x])) = .ok r) : xs.length ≤ r.length := by
  cases d with
  | zero => simp only [modAt] at h; have := pure_ok h; subst this; simp
  | succ d =>
    simp only [modAt] at h
    split at h
    · rename_i ys hl
      obtain ⟨ys', _, h⟩ := bind_ok h
      have := pure_ok h; subst this
      have hne : xs ≠ [] := by intro e; subst e; simp at hl
      have : xs.length ≥ 1 := by cases xs with | nil => exact absurd rfl hne | cons _ _ => simp
      simp [List.length_dropLast]; omega
    · simp at h

theorem rowCount_append_left (xs ys : List Nest) (ti : Nat) (h : ti < xs.length) : rowCount (xs ++ ys) ti = rowCount xs ti := by
  unfold rowCount; rw [List.getElem?_append_left h]

theorem modAt_append_grow (d : Nat) (xs r : List Nest) (x : Nest)
    (h : modAt d xs (fun ys => pure (ys ++ [x])) = .ok r) : RGrow xs r := by
  refine ⟨modAt_append_len d xs r x h, ?_⟩
  intro ti hti
  cases d with
  | zero =>
    simp only [modAt] at h; have := pure_ok h; subst this
    rw [rowCount_append_left _ _ _ hti]; exact Nat.le_refl _
  | succ d =>
    simp only [modAt] at h
    split at h
    · rename_i ys hl
      obtain ⟨ys', hy, h⟩ := bind_ok h
      have := pure_ok h; subst this
      have hlen := modAt_append_len d ys ys' x hy
      by_cases hlast : ti < xs.length - 1
      · have e1 : (xs.dropLast ++ [Nest.list ys'])[ti]? = xs[ti]? := by
          rw [List.getElem?_append_left (by simp [List.length_dropLast]; exact hlast), List.getElem?_dropLast]; simp [hlast]
        unfold rowCount; rw [e1]; exact Nat.le_refl _
      · have hti' : ti = xs.length - 1 := by omega
        have e0 : xs[ti]? = some (.list ys) := by rw [hti', ← List.getLast?_eq_getElem?]; exact hl
        have e1 : (xs.dropLast ++ [Nest.list ys'])[ti]? = some (.list ys') := by
          rw [List.getElem?_append_right (by simp [List.length_dropLast]; omega)]
          simp [List.length_dropLast, hti']
        unfold rowCount; rw [e0, e1]; exact hlen
    · simp at h

theorem drop_grow (s s' : DC) (h : s.drop = .ok s') : RGrow s.root s'.root := by
  unfold DC.drop at h
  split at h
  · simp at h
  · obtain ⟨s1, h1, h⟩ := bind_ok h
    have := pure_ok h; subst this
    unfold DC.appendAtCaret at h1
    obtain ⟨r, hm, h1⟩ := bind_ok h1
    have := pure_ok h1; subst this
    exact modAt_append_grow _ _ _ _ hm

theorem raise_root (s s' : DC) (h : s.raise = .ok s') : s'.root = s.root := by
  unfold DC.raise at h
  split at h
  · simp at h
  · have := pure_ok h; subst this; rfl

theorem setCaretAux_grow (f : Nat) (s s' : DC) (d : Nat) (n : Option Str) (h : DC.setCaretAux f s d n = .ok s') :
    RGrow s.root s'.root := by
  induction f generalizing s with
  | zero => simp [DC.setCaretAux] at h
  | succ f ih =>
    simp only [DC.setCaretAux] at h
    split at h
    · have := pure_ok h; subst this; exact RGrow.refl _
    · split at h
      · obtain ⟨s1, h1, h⟩ := bind_ok h
        exact (drop_grow s s1 h1).trans (ih s1 h)
      · obtain ⟨s1, h1, h⟩ := bind_ok h
        have := raise_root _ s1 h1
        have g := ih s1 h
        rw [this] at g; exact g

theorem setCaret_grow (s s' : DC) (d : Option Nat) (n : Option Str) (h : s.setCaret d n = .ok s') : RGrow s.root s'.root := by
  unfold DC.setCaret at h
  cases d with
  | none => have := pure_ok h; subst this; exact RGrow.refl _
  | some k => exact setCaretAux_grow 8 s s' k n h

/-! ## rows -/

theorem getRow_ok (root : List Nest) (hw : wfL 3 root = true) (ti ri : Nat) (h1 : ti < root.length) (h2 : ri < rowCount root ti) :
    ∃ cells, getRow root ti ri = .ok cells := by
  have ht : ∃ t, root[ti]? = some t := ⟨root[ti], by simp [h1]⟩
  obtain ⟨t, ht⟩ := ht
  have hwt := wfL_getElem 3 root ti t hw ht
  cases t with
  | par p => simp [wf] at hwt
  | list rows =>
    simp only [wf] at hwt
    have hrc : rowCount root ti = rows.length := by unfold rowCount; rw [ht]
    rw [hrc] at h2
    have hr : ∃ rw, rows[ri]? = some rw := ⟨rows[ri], by simp [h2]⟩
    obtain ⟨rw, hr⟩ := hr
    have hwr := wfL_getElem 2 rows ri rw hwt hr
    cases rw with
    | par p => simp [wf] at hwr
    | list cells => exact ⟨cells, by unfold getRow; simp [ht, hr]; rfl⟩

theorem setRow_length (root : List Nest) (ti ri : Nat) (c : List Nest) : (setRow root ti ri c).length = root.length := by
  unfold setRow; simp [List.length_modify]

theorem setRow_rowCount (root : List Nest) (ti ri : Nat) (c : List Nest) (tj : Nat) :
    rowCount (setRow root ti ri c) tj = rowCount root tj := by
  unfold rowCount setRow
  rw [List.getElem?_modify]
  cases h : root[tj]? with
  | none => rfl
  | some x =>
    simp only [Option.map_eq_map, Option.map_some]
    by_cases e : ti = tj
    · simp only [e, if_true]
      cases x with
      | par p => rfl
      | list rows => simp
    · simp only [e, if_false]

theorem captureRow_spec (root : List Nest) (hw : wfL 3 root = true) :
    captureRow root = .ok none ∨
    ∃ ti ri n, captureRow root = .ok (some (ti, ri, n)) ∧ ti < root.length ∧ ri < rowCount root ti ∧ n = rowCount root ti ∧ ri = n - 1 := by
  unfold captureRow
  cases hl : root.getLast? with
  | none => left; rfl
  | some t =>
    have hwt := wfL_getLast 3 root t hw hl
    cases t with
    | par p => simp [wf] at hwt
    | list rows =>
      simp only
      by_cases he : rows.isEmpty = true
      · left; simp [he]; rfl
      · right
        have hne : root ≠ [] := by intro e; subst e; simp at hl
        have hlen : root.length ≥ 1 := by cases root with | nil => exact absurd rfl hne | cons _ _ => simp
        have hrl : rows.length ≥ 1 := by cases rows with | nil => simp at he | cons _ _ => simp
        have hget : root[root.length - 1]? = some (.list rows) := by rw [← List.getLast?_eq_getElem?]; exact hl
        have hrc : rowCount root (root.length - 1) = rows.length := by unfold rowCount; rw [hget]
        refine ⟨root.length - 1, rows.length - 1, rows.length, by simp [he]; rfl, by omega, by rw [hrc]; omega, hrc.symm, rfl⟩

/-- the list spine two levels down survives the index surgery -/
theorem spine2_setRow (root : List Nest) (ti ri : Nat) (c : List Nest) (h : Spine 2 root) : Spine 2 (setRow root ti ri c) := by
  obtain ⟨rows, hl, ys, hl2, _⟩ := h
  have hne : root ≠ [] := by intro e; subst e; simp at hl
  have hlen : root.length ≥ 1 := by cases root with | nil => exact absurd rfl hne | cons _ _ => simp
  have hget : root[root.length - 1]? = some (.list rows) := by rw [← List.getLast?_eq_getElem?]; exact hl
  by_cases e : ti = root.length - 1
  · -- the last table is the one being modified
    have hrne : rows ≠ [] := by intro e'; subst e'; simp at hl2
    have hrlen : rows.length ≥ 1 := by cases rows with | nil => exact absurd rfl hrne | cons _ _ => simp
    have hget2 : rows[rows.length - 1]? = some (.list ys) := by rw [← List.getLast?_eq_getElem?]; exact hl2
    refine ⟨rows.set ri (.list c), ?_, ?_⟩
    · rw [List.getLast?_eq_getElem?, setRow_length]
      unfold setRow
      rw [List.getElem?_modify, hget]; simp [e]
    · by_cases e2 : ri = rows.length - 1
      · refine ⟨c, ?_, trivial⟩
        rw [List.getLast?_eq_getElem?, List.length_set, List.getElem?_set]
        simp [e2]; omega
      · refine ⟨ys, ?_, trivial⟩
        rw [List.getLast?_eq_getElem?, List.length_set, List.getElem?_set]
        simp [e2, hget2]
  · refine ⟨rows, ?_, ys, hl2, trivial⟩
    rw [List.getLast?_eq_getElem?, setRow_length]
    unfold setRow
    rw [List.getElem?_modify, hget]; simp [e]

/-! ## the cell surgery -/

def RowAt (root : List Nest) (ti ri : Nat) : Prop := ti < root.length ∧ ri < rowCount root ti

theorem RowAt.grow {a b : List Nest} {ti ri : Nat} (h : RowAt a ti ri) (g : RGrow a b) : RowAt b ti ri :=
  ⟨Nat.lt_of_lt_of_le h.1 g.1, Nat.lt_of_lt_of_le h.2 (g.2 ti h.1)⟩

theorem RowAt.setRow {a : List Nest} {ti ri : Nat} (h : RowAt a ti ri) (tj rj : Nat) (c : List Nest) : RowAt (setRow a tj rj c) ti ri :=
  ⟨by rw [setRow_length]; exact h.1, by rw [setRow_rowCount]; exact h.2⟩

/-- after `set_caret(3)` the state with the row replaced still satisfies the invariant -/
theorem tinv_setRow (s1 s' : DC) (t1 : TInv s1) (hd : s1.depth = 3) (ti ri : Nat) (c : List Nest)
    (hi : Inv s') (hs : Sty okStyles s') (hr : s'.root = setRow s1.root ti ri c) (hdep : s'.depth = s1.depth) : TInv s' := by
  refine ⟨⟨hi, ?_⟩, hs⟩
  rw [hr, hdep, hd]
  have := t1.inv2.spine; rw [hd] at this
  exact spine2_setRow _ _ _ _ this

theorem vmergeDo_T (ti ri : Nat) (s : DC) (h : TInv s) (hr : RowAt s.root ti ri) (h2 : 2 ≤ rowCount s.root ti) :
    ∃ s', vmergeDo ti ri s = .ok s' ∧ TInv s' ∧ RowAt s'.root ti ri := by
  obtain ⟨s1, h1, t1, d1⟩ := setCaret_T s h (some 3) (by intro k hk; cases hk; omega) none
  have hd3 : s1.depth = 3 := d1 3 rfl
  have g := setCaret_grow s s1 _ _ h1
  have hr1 := hr.grow g
  have hrc : 2 ≤ rowCount s1.root ti := Nat.le_trans h2 (g.2 ti hr.1)
  obtain ⟨thisTr, hg1⟩ := getRow_ok s1.root t1.inv2.inv.shape ti ri hr1.1 hr1.2
  obtain ⟨prevTr, hg2⟩ := getRow_ok s1.root t1.inv2.inv.shape ti (rowCount s1.root ti - 2) hr1.1 (by omega)
  by_cases he : thisTr.isEmpty = true
  · exact ⟨s1, by unfold vmergeDo; simp only [h1, hg1, hg2, ok_bind, he, if_true]; rfl, t1, hr1⟩
  · cases ha : prevTr[thisTr.length - 1]? with
    | none => exact ⟨s1, by unfold vmergeDo; simp only [h1, hg1, hg2, ok_bind, he, ha]; rfl, t1, hr1⟩
    | some above =>
      have hok : vmergeDo ti ri s = .ok { s1 with root := setRow s1.root ti ri (thisTr.dropLast ++ [markCopyT above]) } := by
        unfold vmergeDo; simp only [h1, hg1, hg2, ok_bind, he, ha]; rfl
      exact ⟨_, hok, tinv_setRow s1 _ t1 hd3 ti ri _ (vmergeDo_inv ti ri s _ h.inv2.inv hok) (vmergeDo_sty ti ri s _ h.sty hok) rfl rfl,
        hr1.setRow ti ri _⟩

theorem spanStep_T (dup : Bool) (ti ri : Nat) (s : DC) (h : TInv s) (hr : RowAt s.root ti ri) :
    ∃ s', spanStep dup ti ri s = .ok s' ∧ TInv s' ∧ RowAt s'.root ti ri := by
  obtain ⟨s1, h1, t1, d1⟩ := setCaret_T s h (some 3) (by intro k hk; cases hk; omega) none
  have hd3 : s1.depth = 3 := d1 3 rfl
  have hr1 := hr.grow (setCaret_grow s s1 _ _ h1)
  obtain ⟨thisTr, hg⟩ := getRow_ok s1.root t1.inv2.inv.shape ti ri hr1.1 hr1.2
  have hok : spanStep dup ti ri s = .ok { s1 with root := setRow s1.root ti ri (thisTr ++ [newCell dup thisTr]) } := by
    unfold spanStep; simp only [h1, hg, ok_bind]; rfl
  exact ⟨_, hok, tinv_setRow s1 _ t1 hd3 ti ri _ (spanStep_inv dup ti ri s _ h.inv2.inv hok) (spanStep_sty (okSpec false).nil dup ti ri s _ h.sty hok) rfl rfl,
    hr1.setRow ti ri _⟩

theorem iterate_spanStep_T (dup : Bool) (ti ri : Nat) : ∀ (n : Nat) (s : DC), TInv s → RowAt s.root ti ri →
    ∃ s', iterateM (spanStep dup ti ri) n s = .ok s' ∧ TInv s'
  | 0, s, h, _ => ⟨s, rfl, h⟩
  | n+1, s, h, hr => by
    obtain ⟨s1, h1, t1, r1⟩ := spanStep_T dup ti ri s h hr
    obtain ⟨s', hs', t'⟩ := iterate_spanStep_T dup ti ri n s1 t1 r1
    exact ⟨s', by simp only [iterateM, h1, ok_bind]; exact hs', t'⟩

/-- **`_close_table_cell` never raises** when the cell's properties can be read and its `gridSpan`
(if any) is a number. -/
theorem closeTableCell_T (dup : Bool) (s : DC) (h : TInv s) (tc : Xml)
    (hv : ∃ pr, gatherPr tc = .ok pr ∧ ∃ n, spanExtra pr = .ok n) :
    ∃ s', closeTableCell dup s tc = .ok s' ∧ TInv s' := by
  unfold closeTableCell
  by_cases hn : (elemDepth tc).isNone = true
  · exact ⟨s, by simp [hn]; rfl, h⟩
  · obtain ⟨pr, hpr, n, hn'⟩ := hv
    simp only [hn, if_false, hpr, ok_bind]
    rcases captureRow_spec s.root h.inv2.inv.shape with hc | ⟨ti, ri, k, hc, hti, hri, hk, hrk⟩
    · exact ⟨s, by simp only [hc, ok_bind]; rfl, h⟩
    · simp only [hc, ok_bind]
      have hrow : RowAt s.root ti ri := ⟨hti, hri⟩
      have hv1 : ∃ s1, vmergeStep dup (isContinuation pr) k ti ri s = .ok s1 ∧ TInv s1 ∧ RowAt s1.root ti ri := by
        unfold vmergeStep
        by_cases hcnd : (dup && isContinuation pr && decide (k > 1)) = true
        · simp only [hcnd, if_true]
          have hk2 : 2 ≤ rowCount s.root ti := by
            simp only [Bool.and_eq_true, decide_eq_true_eq] at hcnd
            rw [← hk]; omega
          exact vmergeDo_T ti ri s h hrow hk2
        · simp only [hcnd, if_false]
          exact ⟨s, rfl, h, hrow⟩
      obtain ⟨s1, h1, t1, r1⟩ := hv1
      obtain ⟨s', hs', t'⟩ := iterate_spanStep_T dup ti ri n s1 t1 r1
      exact ⟨s', by simp only [h1, hn', ok_bind]; exact hs', t'⟩

end D2P
