import D2P.Proofs.Hyperlink
import D2P.Proofs.Unstyled
/-!
# The no-tags invariant through the cell surgery and the whole walk (html off)
-/
namespace D2P

theorem mem_leaf_of_getElem (xs : List Nest) (i : Nat) (x : Nest) (h : xs[i]? = some x) :
    ∀ p ∈ leafParsT x, p ∈ leafParsL xs := by
  induction xs generalizing i with
  | nil => simp at h
  | cons y ys ih =>
    intro p hp
    cases i with
    | zero => simp at h; subst h; simp [leafParsL, hp]
    | succ i => simp at h; simp [leafParsL, ih i h p hp]

theorem mem_leaf_set (xs : List Nest) (i : Nat) (x : Nest) : ∀ p ∈ leafParsL (xs.set i x), p ∈ leafParsL xs ∨ p ∈ leafParsT x := by
  induction xs generalizing i with
  | nil => intro p hp; simp [leafParsL] at hp
  | cons y ys ih =>
    intro p hp
    cases i with
    | zero =>
      simp only [List.set_cons_zero, leafParsL, List.mem_append] at hp ⊢
      rcases hp with hp | hp
      · right; exact hp
      · left; right; exact hp
    | succ i =>
      simp only [List.set_cons_succ, leafParsL, List.mem_append] at hp ⊢
      rcases hp with hp | hp
      · left; left; exact hp
      · rcases ih i p hp with h | h
        · left; right; exact h
        · right; exact h

theorem mem_leaf_modify (xs : List Nest) (i : Nat) (f : Nest → Nest) :
    ∀ p ∈ leafParsL (xs.modify i f), p ∈ leafParsL xs ∨ ∃ x, xs[i]? = some x ∧ p ∈ leafParsT (f x) := by
  induction xs generalizing i with
  | nil => intro p hp; simp [leafParsL] at hp
  | cons y ys ih =>
    intro p hp
    cases i with
    | zero =>
      have e : (y :: ys).modify 0 f = f y :: ys := by simp [List.modify_cons]
      rw [e, leafParsL] at hp
      rcases List.mem_append.1 hp with hp | hp
      · right; exact ⟨y, by simp, hp⟩
      · left; rw [leafParsL]; exact List.mem_append_right _ hp
    | succ i =>
      have e : (y :: ys).modify (i + 1) f = y :: ys.modify i f := by simp [List.modify_cons]
      rw [e, leafParsL] at hp
      rcases List.mem_append.1 hp with hp | hp
      · left; rw [leafParsL]; exact List.mem_append_left _ hp
      · rcases ih i p hp with h | ⟨x, hx, h⟩
        · left; rw [leafParsL]; exact List.mem_append_right _ h
        · right; exact ⟨x, by simpa using hx, h⟩

theorem mem_leaf_getRow (root : List Nest) (ti ri : Nat) (cells : List Nest) (h : getRow root ti ri = .ok cells) :
    ∀ p ∈ leafParsL cells, p ∈ leafParsL root := by
  unfold getRow at h
  split at h
  · rename_i rows ht
    split at h
    · rename_i cs hr
      have := pure_ok h; subst this
      intro p hp
      apply mem_leaf_of_getElem root ti _ ht
      simp only [leafParsT]
      exact mem_leaf_of_getElem rows ri _ hr p (by simpa [leafParsT] using hp)
    · simp at h
  · simp at h

theorem mem_leaf_setRow (root : List Nest) (ti ri : Nat) (cells : List Nest) :
    ∀ p ∈ leafParsL (setRow root ti ri cells), p ∈ leafParsL root ∨ p ∈ leafParsL cells := by
  intro p hp
  unfold setRow at hp
  rcases mem_leaf_modify root ti _ p hp with h | ⟨x, hx, h⟩
  · left; exact h
  · cases x with
    | par q => simp only at h; left; exact mem_leaf_of_getElem root ti _ hx p h
    | list rows =>
      simp only [leafParsT] at h
      rcases mem_leaf_set rows ri _ p h with h | h
      · left; exact mem_leaf_of_getElem root ti _ hx p (by simpa [leafParsT] using h)
      · right; simpa [leafParsT] using h

mutual
theorem unstyled_markCopy : (x : Nest) → (∀ p ∈ leafParsT x, p.unstyled) → ∀ p ∈ leafParsT (markCopyT x), p.unstyled
  | .par q, h => by
    intro p hp; simp [markCopyT, leafParsT] at hp; subst hp
    exact h q (by simp [leafParsT])
  | .list xs, h => by
    simp only [markCopyT, leafParsT] at h ⊢
    exact unstyled_markCopyL xs h
theorem unstyled_markCopyL : (xs : List Nest) → (∀ p ∈ leafParsL xs, p.unstyled) → ∀ p ∈ leafParsL (markCopyL xs), p.unstyled
  | [], _ => by intro p hp; simp [markCopyL, leafParsL] at hp
  | x :: xs, h => by
    intro p hp
    simp only [markCopyL, leafParsL, List.mem_append] at hp h
    rcases hp with hp | hp
    · exact unstyled_markCopy x (fun q hq => h q (Or.inl hq)) p hp
    · exact unstyled_markCopyL xs (fun q hq => h q (Or.inr hq)) p hp
end

theorem emptyPar_unstyled : emptyPar.unstyled := ⟨rfl, by intro r hr; simp [emptyPar] at hr⟩

theorem vmergeDo_unst (ti ri : Nat) (s s' : DC) (h : Unst s) (he : vmergeDo ti ri s = .ok s') : Unst s' := by
  unfold vmergeDo at he
  obtain ⟨s1, h1, he⟩ := bind_ok he
  have u1 := unst_of_frame s s1 (setCaret_frame s s1 _ _ h1) h
  obtain ⟨thisTr, hg1, he⟩ := bind_ok he
  obtain ⟨prevTr, hg2, he⟩ := bind_ok he
  split at he
  · have := pure_ok he; subst this; exact u1
  · split at he
    · have := pure_ok he; subst this; exact u1
    · rename_i above ha
      have := pure_ok he; subst this
      refine ⟨?_, u1.open_, u1.queued⟩
      intro p hp
      rcases mem_leaf_setRow _ _ _ _ p hp with hp | hp
      · exact u1.tree p hp
      · rw [leafParsL_append] at hp
        rcases List.mem_append.1 hp with hp | hp
        · apply u1.tree p
          apply mem_leaf_getRow _ _ _ _ hg1
          have : thisTr = thisTr.dropLast ++ thisTr.drop (thisTr.length - 1) := by
            rw [List.dropLast_eq_take]; exact (List.take_append_drop _ _).symm
          rw [this, leafParsL_append]; exact List.mem_append_left _ hp
        · simp only [leafParsL, List.append_nil] at hp
          apply unstyled_markCopy above _ p hp
          intro q hq
          exact u1.tree q (mem_leaf_getRow _ _ _ _ hg2 q (mem_leaf_of_getElem prevTr _ _ ha q hq))

theorem spanStep_unst (dup : Bool) (ti ri : Nat) (s s' : DC) (h : Unst s) (he : spanStep dup ti ri s = .ok s') : Unst s' := by
  unfold spanStep at he
  obtain ⟨s1, h1, he⟩ := bind_ok he
  have u1 := unst_of_frame s s1 (setCaret_frame s s1 _ _ h1) h
  obtain ⟨thisTr, hg, he⟩ := bind_ok he
  have := pure_ok he; subst this
  refine ⟨?_, u1.open_, u1.queued⟩
  intro p hp
  rcases mem_leaf_setRow _ _ _ _ p hp with hp | hp
  · exact u1.tree p hp
  · rw [leafParsL_append] at hp
    rcases List.mem_append.1 hp with hp | hp
    · exact u1.tree p (mem_leaf_getRow _ _ _ _ hg p hp)
    · simp only [leafParsL, List.append_nil] at hp
      cases hdup : dup with
      | false =>
        have : newCell false thisTr = .list [.par emptyPar] := by unfold newCell; rfl
        rw [hdup, this] at hp
        simp [leafParsT, leafParsL] at hp; subst hp; exact emptyPar_unstyled
      | true =>
        cases hc : thisTr.getLast? with
        | none =>
          have : newCell true thisTr = .list [.par emptyPar] := by unfold newCell; simp [hc]
          rw [hdup, this] at hp
          simp [leafParsT, leafParsL] at hp; subst hp; exact emptyPar_unstyled
        | some cl =>
          have : newCell true thisTr = markCopyT cl := by unfold newCell; simp [hc]
          rw [hdup, this] at hp
          apply unstyled_markCopy cl _ p hp
          intro q hq
          apply u1.tree q
          apply mem_leaf_getRow _ _ _ _ hg
          have hne : thisTr ≠ [] := by intro e; subst e; simp at hc
          have e := List.dropLast_concat_getLast hne
          rw [List.getLast?_eq_some_getLast hne] at hc
          rw [← e, leafParsL_append]
          apply List.mem_append_right
          simp only [leafParsL, List.append_nil]
          rw [Option.some.inj hc]; exact hq

theorem iterateM_unst (f : DC → M DC) (hf : ∀ s s', Unst s → f s = .ok s' → Unst s') (n : Nat) (s s' : DC)
    (hs : Unst s) (h : iterateM f n s = .ok s') : Unst s' := by
  induction n generalizing s with
  | zero => simp only [iterateM] at h; have := pure_ok h; subst this; exact hs
  | succ n ih =>
    simp only [iterateM] at h
    obtain ⟨s1, h1, h⟩ := bind_ok h
    exact ih s1 (hf s s1 hs h1) h

theorem closeTableCell_unst (dup : Bool) (s s' : DC) (tc : Xml) (h : Unst s) (he : closeTableCell dup s tc = .ok s') : Unst s' := by
  unfold closeTableCell at he
  split at he
  · have := pure_ok he; subst this; exact h
  obtain ⟨pr, _, he⟩ := bind_ok he
  obtain ⟨cap, _, he⟩ := bind_ok he
  split at he
  · have := pure_ok he; subst this; exact h
  · obtain ⟨s1, h1, he⟩ := bind_ok he
    have u1 : Unst s1 := by
      unfold vmergeStep at h1
      split at h1
      · exact vmergeDo_unst _ _ s s1 h h1
      · have := pure_ok h1; subst this; exact h
    obtain ⟨n, _, he⟩ := bind_ok he
    exact iterateM_unst _ (fun a b ia hab => spanStep_unst dup _ _ a b ia hab) _ s1 s' u1 he

end D2P

namespace D2P

/-- a part configuration with html off -/
def PartCfg.plain (cfg : PartCfg) : Prop := cfg.html = false

theorem noteLabel_unst (s s' : DC) (x : Xml) (k : String) (h : Unst s) (he : noteLabel s x k = .ok s') : Unst s' := by
  unfold noteLabel at he
  obtain ⟨sep, _, he⟩ := bind_ok he
  split at he
  · have := pure_ok he; subst this; exact h
  · obtain ⟨id, _, he⟩ := bind_ok he
    obtain ⟨s0, h0, he⟩ := bind_ok he
    have h := flushImplicit_preserves concludePar_unst s s0 _ h h0
    have := pure_ok he; subst this
    refine ⟨h.tree, h.open_, ?_⟩
    intro r hr
    unfold DC.queueRun at hr
    rcases List.mem_append.1 hr with hr | hr
    · exact h.queued r hr
    · simp at hr; subst hr; rfl

theorem insertOpt_unst (s s' : DC) (t : Option Str) (h : Unst s) (he : insertOpt false s t = .ok s') : Unst s' := by
  unfold insertOpt at he
  split at he
  · exact insertNewRun_unst s s' _ h he
  · have := pure_ok he; subst this; exact h

theorem openParagraph_unst (cfg : PartCfg) (hc : cfg.html = false) (s s' : DC) (x : Xml) (c : Bool) (h : Unst s)
    (he : openParagraph cfg s x c = .ok s') : Unst s' := by
  unfold openParagraph at he
  rw [hc] at he
  obtain ⟨s1, h1, he⟩ := bind_ok he
  have u1 := commencePar_unst s s1 _ _ h h1
  obtain ⟨bb, _, he⟩ := bind_ok he
  obtain ⟨s2, h2, he⟩ := bind_ok he
  have u2 := insertNewRun_unst ({ s1 with bullets := (listPosition bb.1 x (x.id?.getD 0)).1 } : DC) s2 _
    ⟨u1.tree, u1.open_, u1.queued⟩ h2
  have := pure_ok he; subst this
  exact modTop_unst s2 _ u2 (fun p hp => hp)

theorem startRange_unst (s s' : DC) (id : Str) (h : Unst s) (he : s.startRange id = .ok s') : Unst s' := by
  unfold DC.startRange at he
  obtain ⟨c, _, he⟩ := bind_ok he
  have := pure_ok he; subst this; exact ⟨h.tree, h.open_, h.queued⟩

theorem endRange_unst (s s' : DC) (id : Str) (h : Unst s) (he : s.endRange id = .ok s') : Unst s' := by
  unfold DC.endRange at he
  obtain ⟨c, _, he⟩ := bind_ok he
  have := pure_ok he; subst this; exact ⟨h.tree, h.open_, h.queued⟩

theorem withTrue_unst (x : M DC) (s' : DC) (r : Bool) (hx : ∀ t, x = .ok t → Unst t) (h : withTrue x = .ok (s', r)) : Unst s' :=
  hx s' (withTrue_ok h).1
theorem withFalse_unst (x : M DC) (s' : DC) (r : Bool) (hx : ∀ t, x = .ok t → Unst t) (h : withFalse x = .ok (s', r)) : Unst s' :=
  hx s' (withFalse_ok h).1

theorem openStep_unst (cfg : PartCfg) (hc : cfg.html = false) (s s' : DC) (x : Xml) (c : Bool) (roots : List (List Nest)) (r : Bool)
    (h : Unst s) (he : openStep cfg s x c roots = .ok (s', r)) : Unst s' := by
  unfold openStep at he
  rw [hc] at he
  split at he
  · exact withTrue_unst _ s' r (fun t ht => openParagraph_unst cfg hc s t x c h ht) he
  · exact withTrue_unst _ s' r (fun t ht => commenceRun_unst s t _ h ht) he
  · exact withFalse_unst _ s' r (fun t ht => by obtain ⟨id, _, ht⟩ := bind_ok ht; exact endRange_unst s t id h ht) he
  · exact withFalse_unst _ s' r (fun t ht => by obtain ⟨id, _, ht⟩ := bind_ok ht; exact startRange_unst s t id h ht) he
  · exact withTrue_unst _ s' r (fun t ht => addCode_unst s t _ h ht) he
  · exact withTrue_unst _ s' r (fun t ht => addCode_unst s t _ h ht) he
  · exact withFalse_unst _ s' r (fun t ht => insertNewRun_unst s t _ h ht) he
  · exact withTrue_unst _ s' r (fun t ht => addCode_unst s t _ h ht) he
  · exact withTrue_unst _ s' r (fun t ht => by
      obtain ⟨cde, _, ht⟩ := bind_ok ht
      split at ht
      · exact addCode_unst s t _ h ht
      · have := pure_ok ht; subst this; exact h) he
  · exact withTrue_unst _ s' r (fun t ht => noteLabel_unst s t x _ h ht) he
  · exact withTrue_unst _ s' r (fun t ht => noteLabel_unst s t x _ h ht) he
  · exact withFalse_unst _ s' r (fun t ht => openHyperlink_preserves cfg (fun a id b ha hb => startRange_unst a b id ha hb)
      (fun a tx b ha hb => insertNewRun_unst a b tx ha (by rw [hc] at hb; exact hb)) (fun a id b ha hb => endRange_unst a b id ha hb) s t x roots h ht) he
  · exact withTrue_unst _ s' r (fun t ht => by obtain ⟨tx, _, ht⟩ := bind_ok ht; exact insertNewRun_unst s t _ h ht) he
  · exact withTrue_unst _ s' r (fun t ht => by obtain ⟨tx, _, ht⟩ := bind_ok ht; exact insertNewRun_unst s t _ h ht) he
  · exact withTrue_unst _ s' r (fun t ht => by obtain ⟨tx, _, ht⟩ := bind_ok ht; exact insertNewRun_unst s t _ h ht) he
  · exact withTrue_unst _ s' r (fun t ht => by obtain ⟨tx, _, ht⟩ := bind_ok ht; exact insertNewRun_unst s t _ h ht) he
  · exact withTrue_unst _ s' r (fun t ht => by obtain ⟨tx, _, ht⟩ := bind_ok ht; exact insertOpt_unst s t _ h ht) he
  · exact withTrue_unst _ s' r (fun t ht => by obtain ⟨tx, _, ht⟩ := bind_ok ht; exact insertOpt_unst s t _ h ht) he
  · exact withTrue_unst _ s' r (fun t ht => insertOpt_unst s t _ h ht) he
  · exact withTrue_unst _ s' r (fun t ht => insertNewRun_unst s t _ h ht) he
  · have := pure_ok he; cases this; exact h

theorem closeStepCore_unst (cfg : PartCfg) (hc : cfg.html = false) (s s' : DC) (x : Xml) (h : Unst s)
    (he : closeStepCore cfg s x = .ok s') : Unst s' := by
  unfold closeStepCore at he
  rw [hc] at he
  split at he
  · exact concludePar_unst s s' h he
  · exact commenceRun_unst s s' none h he
  · exact closeTableCell_unst cfg.dup s s' x h he
  · have := pure_ok he; subst this; exact h

theorem closeStep_unst (cfg : PartCfg) (hc : cfg.html = false) (s s' : DC) (x : Xml) (h : Unst s)
    (he : closeStep cfg s x = .ok s') : Unst s' :=
  closeStep_preserves concludePar_unst cfg x (fun a b ha hb => closeStepCore_unst cfg hc a b x ha hb) s s' h he

theorem setCaretOpen_unst (s s' : DC) (d : Option Nat) (n : Option Str) (h : Unst s) (he : s.setCaretOpen d n = .ok s') : Unst s' :=
  setCaretOpen_preserves concludePar_unst (fun a b d n ha hb => unst_of_frame a b (setCaret_frame a b d n hb) ha) s s' d n h he

theorem finish_unst (cfg : PartCfg) (hc : cfg.html = false) (s s' : DC) (h : Unst s) (he : finish cfg s = .ok s') : Unst s' := by
  unfold finish at he
  rw [hc] at he
  obtain ⟨s1, h1, he⟩ := bind_ok he
  have u1 : Unst s1 := by
    split at h1
    · have := pure_ok h1; subst this; exact h
    · exact commencePar_unst s s1 none false h h1
  exact concludePar_unst s1 s' u1 he

mutual
theorem walk_unst (cfg : PartCfg) (hc : cfg.html = false) (num : Dict Str (List NumAttr)) :
    (x : Xml) → (c : Bool) → (s s' : DC) → Unst s → walk cfg num c s x = .ok s' → Unst s'
  | .elem i p t m a tx tl ks, c, s, s', hs, h => by
    simp only [walk] at h
    obtain ⟨s1, h1, h⟩ := bind_ok h
    have u1 := setCaretOpen_unst s s1 _ _ hs h1
    obtain ⟨roots, _, h⟩ := bind_ok h
    obtain ⟨⟨s2, rec⟩, h2, h⟩ := bind_ok h
    have u2 : Unst s2 := openStep_unst cfg hc s1 s2 _ c roots rec u1 h2
    obtain ⟨s3, h3, h⟩ := bind_ok h
    have u3 : Unst s3 := by
      simp only at h3
      split at h3
      · exact walkL_unst cfg hc num ks _ s2 s3 u2 h3
      · have := pure_ok h3; subst this; exact u2
    obtain ⟨s4, h4, h⟩ := bind_ok h
    exact unst_of_frame s4 s' (setCaret_frame s4 s' _ _ h) (closeStep_unst cfg hc s3 s4 _ u3 h4)
  | .comment _ _, c, s, s', hs, h => by simp only [walk] at h; have := pure_ok h; subst this; exact hs
  | .pi _, c, s, s', hs, h => by simp only [walk] at h; have := pure_ok h; subst this; exact hs
theorem walkL_unst (cfg : PartCfg) (hc : cfg.html = false) (num : Dict Str (List NumAttr)) :
    (xs : List Xml) → (c : Bool) → (s s' : DC) → Unst s → walkL cfg num c s xs = .ok s' → Unst s'
  | [], c, s, s', hs, h => by simp only [walkL] at h; have := pure_ok h; subst this; exact hs
  | k :: ks, c, s, s', hs, h => by
    simp only [walkL] at h
    obtain ⟨s1, h1, h⟩ := bind_ok h
    exact walkL_unst cfg hc num ks c s1 s' (walk_unst cfg hc num k c s s1 hs h1) h
end

/-- **html off: every extracted paragraph's string is the concatenation of its run texts.** -/
theorem plain_strings (cfg : PartCfg) (hc : cfg.html = false) (num : Dict Str (List NumAttr)) (root : Xml) (c : Bool) (dc : DC)
    (h : newDepthCollector cfg num root c = .ok dc) :
    ∀ p ∈ leafParsL dc.root, ∃ ss, p.runStrings = .ok ss ∧ sjoin ss = parText p := by
  unfold newDepthCollector at h
  obtain ⟨s1, h1, h⟩ := bind_ok h
  have u0 : Unst ({ bullets := { numAttrs := num } } : DC) := ⟨by intro p hp; simp [leafParsL] at hp, by simp, by simp⟩
  have u := finish_unst cfg hc s1 dc (walk_unst cfg hc num root c _ s1 u0 h1) h
  intro p hp
  exact plain_of_unstyled p (u.tree p hp)

end D2P
