import D2P.Spec.Runs
import D2P.Proofs.UnstyledWalk
import D2P.Proofs.Paragraph
/-!
# The walk refines the run-string machine (html off)
-/
namespace D2P

/-! ## run lists as string states -/

def texts (rs : List Run) : List Str := rs.flatMap (fun r => ne r.text)

def lastText (rs : List Run) : Str := (rs.getLast?.map (·.text)).getD []

/-- what a paragraph's run list means to the machine -/
def absP (p : Par) : RState := (texts p.runs.dropLast, lastText p.runs)

theorem texts_append (a b : List Run) : texts (a ++ b) = texts a ++ texts b := by simp [texts]

theorem texts_split (rs : List Run) : texts rs = texts rs.dropLast ++ ne (lastText rs) := by
  cases h : rs.getLast? with
  | none =>
    have : rs = [] := by simpa using h
    subst this; simp [texts, lastText, ne]
  | some l =>
    have hne : rs ≠ [] := by intro e; subst e; simp at h
    have hl : rs.getLast hne = l := by rw [List.getLast?_eq_some_getLast hne] at h; exact Option.some.inj h
    have hs := List.dropLast_concat_getLast hne
    rw [hl] at hs
    conv => lhs; rw [← hs]
    simp [texts_append, texts, lastText, h]

theorem absP_strings (p : Par) : (absP p).strings = texts p.runs := by
  unfold absP RState.strings; exact (texts_split p.runs).symm

theorem absP_count (p : Par) : (absP p).count = (texts p.runs).length := by
  rw [← absP_strings]; simp [RState.count, RState.strings]

theorem absP_append (p : Par) (r : Run) :
    absP { p with runs := p.runs ++ [r] } = ((absP p).1 ++ ne (absP p).2, r.text) := by
  simp only [absP, List.dropLast_concat, lastText, List.getLast?_append, List.getLast?_singleton, Option.some_or,
    Option.map_some, Option.getD_some]
  rw [texts_split p.runs]; rfl

theorem absP_append2 (p : Par) (a b : Run) :
    absP { p with runs := p.runs ++ [a, b] } = ((absP p).1 ++ ne (absP p).2 ++ ne a.text, b.text) := by
  have : p.runs ++ [a, b] = (p.runs ++ [a]) ++ [b] := by simp
  simp only [absP, this, List.dropLast_concat, lastText, List.getLast?_append, List.getLast?_singleton, Option.some_or,
    Option.map_some, Option.getD_some]
  rw [texts_append, texts_split p.runs]
  simp [texts, lastText]

theorem absP_appendToLast (p : Par) (t : Str) (hne : p.runs ≠ []) :
    absP (appendToLastRun p t) = ((absP p).1, (absP p).2 ++ t) := by
  unfold appendToLastRun
  cases h : p.runs.getLast? with
  | none => exact absurd (by simpa using h) hne
  | some l =>
    simp only [absP, List.dropLast_concat, lastText, List.getLast?_append, List.getLast?_singleton, Option.some_or,
      Option.map_some, Option.getD_some, h]

/-! ## rendering with html off -/

theorem runStrs_plain : ∀ (rs : List Run), (∀ r ∈ rs, r.style = []) → runStrs rs = .ok (texts rs)
  | [], _ => rfl
  | r :: rs, h => by
    have hr : r.style = [] := h r (by simp)
    have ih := runStrs_plain rs (fun x hx => h x (by simp [hx]))
    have hs : r.str = .ok r.text := by
      unfold Run.str
      split
      · rename_i he; rw [List.isEmpty_iff.1 he]; rfl
      · simp [hr, htmlClose, closeTags, htmlOpen, sjoin, pure, Except.pure, bind, Except.bind]
    simp only [runStrs, hs, ok_bind, ih, texts, List.flatMap_cons, ne]
    split <;> rfl

theorem runStrings_plain (p : Par) (h : p.unstyled) : p.runStrings = .ok (texts p.runs) := by
  unfold Par.runStrings
  simp only [runStrs_plain p.runs h.2, ok_bind, h.1, List.isEmpty_nil, if_true]
  rfl

/-! ## inside one open paragraph -/

/-- the collector is inside exactly one open paragraph `p`; the finished paragraphs hold `k` strings -/
structure In (s : DC) (k : Nat) (p : Par) : Prop where
  one : s.openPars = [p]
  leaf : countStrings (leafParsL s.root) = .ok k
  unst : Unst s
  noq : s.queued = []

def absS (s : DC) (p : Par) : RS := ⟨absP p, s.ranges⟩

theorem In.hasTop {s : DC} {k : Nat} {p : Par} (h : In s k p) : HasTop s := ⟨p, by rw [h.one]; rfl⟩

theorem In.countRuns {s : DC} {k : Nat} {p : Par} (h : In s k p) : s.countRuns = .ok (k + (absP p).count) := by
  unfold DC.countRuns
  have hp : p.unstyled := h.unst.open_ p (by rw [h.one]; simp)
  simp only [h.leaf, ok_bind, h.one, openParCount, runStrings_plain p hp, hp.1, List.isEmpty_nil, if_true, absP_count]
  rfl

theorem modTop_one (s : DC) (p : Par) (f : Par → Par) (h : s.openPars = [p]) :
    (s.modTop f).openPars = [f p] ∧ (s.modTop f).root = s.root ∧ (s.modTop f).ranges = s.ranges := by
  unfold DC.modTop; simp [h]

theorem in_modTop {s : DC} {k : Nat} {p : Par} (h : In s k p) (f : Par → Par) (hu : Unst (s.modTop f)) : In (s.modTop f) k (f p) :=
  ⟨(modTop_one s p f h.one).1, by rw [(modTop_one s p f h.one).2.1]; exact h.leaf, hu, by rw [modTop_queued]; exact h.noq⟩

/-- one step of the machine on the strings, the ranges untouched -/
def StepR (s s' : DC) (k : Nat) (p : Par) (g : RState → RState) : Prop :=
  ∃ p', In s' k p' ∧ s'.root = s.root ∧ s'.ranges = s.ranges ∧ absP p' = g (absP p)

theorem commenceRun_runs (s s' : DC) (k : Nat) (p : Par) (e : Option Xml) (h : In s k p)
    (he : s.commenceRun false e = .ok s') : StepR s s' k p RState.newRun := by
  have hu := commenceRun_unst s s' e h.unst he
  unfold DC.commenceRun at he
  obtain ⟨st, _, he⟩ := bind_ok he
  rw [ensurePar_hasTop false s h.hasTop] at he
  obtain ⟨s1, h1, he⟩ := bind_ok he
  cases h1
  have := pure_ok he; subst this
  obtain ⟨_, m2, m3⟩ := modTop_one s p (fun p => { p with runs := p.runs ++ [{ style := st }] }) h.one
  exact ⟨_, in_modTop h _ hu, m2, m3, by rw [absP_append]; rfl⟩

theorem ensureRun_runs (s s' : DC) (k : Nat) (p : Par) (h : In s k p) (he : s.ensureRun false = .ok s') :
    ∃ p', In s' k p' ∧ s'.root = s.root ∧ s'.ranges = s.ranges ∧ absP p' = absP p ∧ p'.runs ≠ [] := by
  have hu := ensureRun_unst s s' h.unst he
  unfold DC.ensureRun at he
  rw [ensurePar_hasTop false s h.hasTop] at he
  obtain ⟨s1, h1, he⟩ := bind_ok he
  cases h1
  have := pure_ok he; subst this
  obtain ⟨_, m2, m3⟩ := modTop_one s p (fun p => if p.runs.isEmpty then { p with runs := [{}] } else p) h.one
  refine ⟨_, in_modTop h _ hu, m2, m3, ?_, ?_⟩
  · split
    · rename_i he'
      have : p.runs = [] := List.isEmpty_iff.1 he'
      simp [absP, this, texts, lastText]
    · rfl
  · split
    · simp
    · rename_i he'; intro e; rw [e] at he'; simp at he'

theorem addCode_runs (s s' : DC) (k : Nat) (p : Par) (t : Str) (h : In s k p)
    (he : s.addCode false t = .ok s') : StepR s s' k p (fun r => r.txt t) := by
  have hu := addCode_unst s s' t h.unst he
  unfold DC.addCode at he
  obtain ⟨s1, h1, he⟩ := bind_ok he
  obtain ⟨p1, i1, r1, g1, a1, n1⟩ := ensureRun_runs s s1 k p h h1
  have := pure_ok he; subst this
  obtain ⟨_, m2, m3⟩ := modTop_one s1 p1 (fun p => appendToLastRun p t) i1.one
  exact ⟨_, in_modTop i1 _ hu, m2.trans r1, m3.trans g1, by rw [absP_appendToLast p1 t n1, a1]; rfl⟩

theorem insertNewRun_runs (s s' : DC) (k : Nat) (p : Par) (t : Str) (h : In s k p)
    (he : s.insertNewRun false t = .ok s') : StepR s s' k p (fun r => r.ins t) := by
  have hu := insertNewRun_unst s s' t h.unst he
  unfold DC.insertNewRun at he
  obtain ⟨s1, h1, he⟩ := bind_ok he
  obtain ⟨p1, i1, r1, g1, a1, _⟩ := ensureRun_runs s s1 k p h h1
  have := pure_ok he; subst this
  obtain ⟨_, m2, m3⟩ := modTop_one s1 p1 (fun p => { p with runs := p.runs ++ [{ style := [], text := t }, { style := lastRunStyle p }] }) i1.one
  exact ⟨_, in_modTop i1 _ hu, m2.trans r1, m3.trans g1, by rw [absP_append2, a1]; rfl⟩

theorem insertOpt_runs (s s' : DC) (k : Nat) (p : Par) (t : Option Str) (h : In s k p)
    (he : insertOpt false s t = .ok s') : StepR s s' k p (fun r => r.insOpt t) := by
  unfold insertOpt at he
  cases t with
  | none => have := pure_ok he; subst this; exact ⟨p, h, rfl, rfl, rfl⟩
  | some t => exact insertNewRun_runs s s' k p t h he

/-! ## markers -/

theorem startRange_runs (s s' : DC) (k : Nat) (p : Par) (id : Str) (h : In s k p) (he : s.startRange id = .ok s') :
    In s' k p ∧ s'.root = s.root ∧ absS s' p = (absS s p).start k id := by
  have hu := startRange_unst s s' id h.unst he
  unfold DC.startRange at he
  rw [h.countRuns] at he
  have := pure_ok he; subst this
  exact ⟨⟨h.one, h.leaf, hu, h.noq⟩, rfl, rfl⟩

theorem endRange_runs (s s' : DC) (k : Nat) (p : Par) (id : Str) (h : In s k p) (he : s.endRange id = .ok s') :
    In s' k p ∧ s'.root = s.root ∧ absS s' p = (absS s p).stop k id := by
  have hu := endRange_unst s s' id h.unst he
  unfold DC.endRange at he
  rw [h.countRuns] at he
  have := pure_ok he; subst this
  exact ⟨⟨h.one, h.leaf, hu, h.noq⟩, rfl, rfl⟩

theorem foldIds_start (k : Nat) (p : Par) : ∀ (ms : List Xml) (s s' : DC), In s k p → foldIds DC.startRange s ms = .ok s' →
    In s' k p ∧ s'.root = s.root ∧ foldMarkers (fun st id => st.start k id) (absS s p) ms = .ok (absS s' p)
  | [], s, s', h, he => by simp only [foldIds] at he; have := pure_ok he; subst this; exact ⟨h, rfl, rfl⟩
  | m :: ms, s, s', h, he => by
    simp only [foldIds] at he
    obtain ⟨id, hid, he⟩ := bind_ok he
    obtain ⟨s1, h1, he⟩ := bind_ok he
    obtain ⟨i1, r1, a1⟩ := startRange_runs s s1 k p id h h1
    obtain ⟨i2, r2, a2⟩ := foldIds_start k p ms s1 s' i1 he
    exact ⟨i2, r2.trans r1, by simp only [foldMarkers, hid, ok_bind, ← a1]; exact a2⟩

theorem foldIds_stop (k : Nat) (p : Par) : ∀ (ms : List Xml) (s s' : DC), In s k p → foldIds DC.endRange s ms = .ok s' →
    In s' k p ∧ s'.root = s.root ∧ foldMarkers (fun st id => st.stop k id) (absS s p) ms = .ok (absS s' p)
  | [], s, s', h, he => by simp only [foldIds] at he; have := pure_ok he; subst this; exact ⟨h, rfl, rfl⟩
  | m :: ms, s, s', h, he => by
    simp only [foldIds] at he
    obtain ⟨id, hid, he⟩ := bind_ok he
    obtain ⟨s1, h1, he⟩ := bind_ok he
    obtain ⟨i1, r1, a1⟩ := endRange_runs s s1 k p id h h1
    obtain ⟨i2, r2, a2⟩ := foldIds_stop k p ms s1 s' i1 he
    exact ⟨i2, r2.trans r1, by simp only [foldMarkers, hid, ok_bind, ← a1]; exact a2⟩

/-! ## the open and close steps -/

theorem stepR_out {s s' : DC} {k : Nat} {p : Par} {g : RState → RState} (h : StepR s s' k p g) :
    ∃ p', In s' k p' ∧ s'.root = s.root ∧ absS s' p' = { absS s p with r := g (absS s p).r } := by
  obtain ⟨p', hi, hr, hg, ha⟩ := h
  exact ⟨p', hi, hr, by simp only [absS, hg, ha]⟩

theorem openStep_runs (cfg : PartCfg) (hc : cfg.html = false) (s s' : DC) (k : Nat) (p : Par) (x : Xml) (c : Bool)
    (roots : List (List Nest)) (r : Bool) (hx : isBlockish x = false) (h : In s k p)
    (he : openStep cfg s x c roots = .ok (s', r)) :
    ∃ p', In s' k p' ∧ s'.root = s.root ∧ openRuns cfg k x (rootsText roots) (absS s p) = .ok (absS s' p', r) := by
  unfold openStep at he
  unfold isBlockish at hx
  unfold openRuns
  rw [hc] at he
  split at he
  · rename_i hm; rw [hm] at hx; simp at hx
  · rename_i hm
    obtain ⟨h1, rfl⟩ := withTrue_ok he
    obtain ⟨p', hi, hr, ha⟩ := stepR_out (commenceRun_runs s s' k p _ h h1)
    exact ⟨p', hi, hr, by simp only [hm, ha]; rfl⟩
  · rename_i hm
    obtain ⟨h1, rfl⟩ := withFalse_ok he
    obtain ⟨id, hid, h1⟩ := bind_ok h1
    obtain ⟨hi, hr, ha⟩ := endRange_runs s s' k p id h h1
    exact ⟨p, hi, hr, by simp only [hm, hid, ok_bind, ha]; rfl⟩
  · rename_i hm
    obtain ⟨h1, rfl⟩ := withFalse_ok he
    obtain ⟨id, hid, h1⟩ := bind_ok h1
    obtain ⟨hi, hr, ha⟩ := startRange_runs s s' k p id h h1
    exact ⟨p, hi, hr, by simp only [hm, hid, ok_bind, ha]; rfl⟩
  · rename_i hm
    obtain ⟨h1, rfl⟩ := withTrue_ok he
    obtain ⟨p', hi, hr, ha⟩ := stepR_out (addCode_runs s s' k p _ h (by simpa [DC.addText] using h1))
    exact ⟨p', hi, hr, by simp only [hm, ha]; rfl⟩
  · rename_i hm
    obtain ⟨h1, rfl⟩ := withTrue_ok he
    obtain ⟨p', hi, hr, ha⟩ := stepR_out (addCode_runs s s' k p _ h (by simpa [DC.addText] using h1))
    exact ⟨p', hi, hr, by simp only [hm, ha]; rfl⟩
  · rename_i hm
    obtain ⟨h1, rfl⟩ := withFalse_ok he
    obtain ⟨p', hi, hr, ha⟩ := stepR_out (insertNewRun_runs s s' k p _ h h1)
    exact ⟨p', hi, hr, by simp only [hm, ha]; rfl⟩
  · rename_i hm
    obtain ⟨h1, rfl⟩ := withTrue_ok he
    obtain ⟨p', hi, hr, ha⟩ := stepR_out (addCode_runs s s' k p _ h h1)
    exact ⟨p', hi, hr, by simp only [hm, ha]; rfl⟩
  · rename_i hm
    obtain ⟨h1, rfl⟩ := withTrue_ok he
    obtain ⟨cd, hcd, h1⟩ := bind_ok h1
    cases cd with
    | none =>
      simp only at h1; have := pure_ok h1; subst this
      exact ⟨p, h, rfl, by simp only [hm, hcd, ok_bind]; rfl⟩
    | some cd =>
      simp only at h1
      obtain ⟨p', hi, hr, ha⟩ := stepR_out (addCode_runs s s' k p _ h h1)
      exact ⟨p', hi, hr, by simp only [hm, hcd, ok_bind, ha]; rfl⟩
  · rename_i hm; rw [hm] at hx; simp at hx
  · rename_i hm; rw [hm] at hx; simp at hx
  · rename_i hm
    obtain ⟨h1, rfl⟩ := withFalse_ok he
    unfold openHyperlink at h1
    obtain ⟨tx, htx, h1⟩ := bind_ok h1
    obtain ⟨qs, hqs, h1⟩ := bind_ok h1
    obtain ⟨s1, hs1, h1⟩ := bind_ok h1
    obtain ⟨rn, hrn, h1⟩ := bind_ok h1
    obtain ⟨s2, hs2, h1⟩ := bind_ok h1
    obtain ⟨qe, hqe, h1⟩ := bind_ok h1
    obtain ⟨i1, r1, a1⟩ := foldIds_start k p _ s s1 h hs1
    rw [hc] at hs2
    obtain ⟨p2, i2, r2, a2⟩ := stepR_out (insertNewRun_runs s1 s2 k p rn i1 hs2)
    obtain ⟨i3, r3, a3⟩ := foldIds_stop k p2 _ s2 s' i2 h1
    refine ⟨p2, i3, (r3.trans r2).trans r1, ?_⟩
    simp only [hm, htx, ok_bind, hqs, a1, hrn, hqe]
    rw [← a2, a3]; rfl
  · rename_i hm
    obtain ⟨h1, rfl⟩ := withTrue_ok he
    obtain ⟨t, ht, h1⟩ := bind_ok h1
    obtain ⟨p', hi, hr, ha⟩ := stepR_out (insertNewRun_runs s s' k p _ h h1)
    exact ⟨p', hi, hr, by simp only [hm, ht, ok_bind, ha]; rfl⟩
  · rename_i hm
    obtain ⟨h1, rfl⟩ := withTrue_ok he
    obtain ⟨t, ht, h1⟩ := bind_ok h1
    obtain ⟨p', hi, hr, ha⟩ := stepR_out (insertNewRun_runs s s' k p _ h h1)
    exact ⟨p', hi, hr, by simp only [hm, ht, ok_bind, ha]; rfl⟩
  · rename_i hm
    obtain ⟨h1, rfl⟩ := withTrue_ok he
    obtain ⟨t, ht, h1⟩ := bind_ok h1
    obtain ⟨p', hi, hr, ha⟩ := stepR_out (insertNewRun_runs s s' k p _ h h1)
    exact ⟨p', hi, hr, by simp only [hm, ht, ok_bind, ha]; rfl⟩
  · rename_i hm
    obtain ⟨h1, rfl⟩ := withTrue_ok he
    obtain ⟨t, ht, h1⟩ := bind_ok h1
    obtain ⟨p', hi, hr, ha⟩ := stepR_out (insertNewRun_runs s s' k p _ h h1)
    exact ⟨p', hi, hr, by simp only [hm, ht, ok_bind, ha]; rfl⟩
  · rename_i hm
    obtain ⟨h1, rfl⟩ := withTrue_ok he
    obtain ⟨t, ht, h1⟩ := bind_ok h1
    obtain ⟨p', hi, hr, ha⟩ := stepR_out (insertOpt_runs s s' k p _ h h1)
    exact ⟨p', hi, hr, by simp only [hm, ht, ok_bind, ha]; rfl⟩
  · rename_i hm
    obtain ⟨h1, rfl⟩ := withTrue_ok he
    obtain ⟨t, ht, h1⟩ := bind_ok h1
    obtain ⟨p', hi, hr, ha⟩ := stepR_out (insertOpt_runs s s' k p _ h h1)
    exact ⟨p', hi, hr, by simp only [hm, ht, ok_bind, ha]; rfl⟩
  · rename_i hm
    obtain ⟨h1, rfl⟩ := withTrue_ok he
    obtain ⟨p', hi, hr, ha⟩ := stepR_out (insertOpt_runs s s' k p _ h h1)
    exact ⟨p', hi, hr, by simp only [hm, ha]; rfl⟩
  · rename_i hm
    obtain ⟨h1, rfl⟩ := withTrue_ok he
    obtain ⟨p', hi, hr, ha⟩ := stepR_out (insertNewRun_runs s s' k p _ h h1)
    exact ⟨p', hi, hr, by simp only [hm, ha]; rfl⟩
  · have := pure_ok he; cases this
    refine ⟨p, h, rfl, ?_⟩
    split <;> first | rfl | (exfalso; simp_all)

theorem closeStep_runs (cfg : PartCfg) (hc : cfg.html = false) (s s' : DC) (k : Nat) (p : Par) (x : Xml)
    (hx : isBlockish x = false) (h : In s k p) (he : closeStep cfg s x = .ok s') :
    ∃ p', In s' k p' ∧ s'.root = s.root ∧ absS s' p' = closeRuns x (absS s p) := by
  unfold closeStep at he
  unfold isBlockish at hx
  unfold closeRuns
  rw [hc] at he
  split at he
  · rename_i hm; rw [hm] at hx; simp at hx
  · rename_i hm
    obtain ⟨p', hi, hr, ha⟩ := stepR_out (commenceRun_runs s s' k p none h he)
    exact ⟨p', hi, hr, by simp only [hm, ha]⟩
  · rename_i hm; rw [hm] at hx; simp at hx
  · have := pure_ok he; subst this
    refine ⟨p, h, rfl, ?_⟩
    split <;> first | rfl | (exfalso; simp_all)

/-! ## the walk over inline content -/

theorem table_hyperlink : tagTable.all (fun e => !(e.2 == "HYPERLINK") || e.1 == hyperlinkTag) = true := by decide
theorem table_paragraph : tagTable.all (fun e => !(e.1 == paragraphTag) || e.2 == "PARAGRAPH") = true := by decide
theorem table_cell : tagTable.all (fun e => !(e.1 == lit "w:tc") || e.2 == "TABLE_CELL") = true := by decide

theorem hyperlink_of_member (pt : Str) (h : tagMember pt = some "HYPERLINK") : pt = hyperlinkTag := by
  unfold tagMember at h
  cases hf : tagTable.find? (fun e => e.1 == pt) with
  | none => simp [hf] at h
  | some e =>
    simp only [hf, Option.map_some, Option.some.injEq] at h
    have hm := List.mem_of_find?_eq_some hf
    have hp : (e.1 == pt) = true := by simpa using List.find?_some hf
    have := List.all_eq_true.1 table_hyperlink e hm
    simp only [h, beq_self_eq_true, Bool.not_true, Bool.false_or, beq_iff_eq] at this
    rw [← this]; exact (by simpa using hp : e.1 = pt).symm

theorem tagMember_tc : tagMember (lit "w:tc") = some "TABLE_CELL" := by decide

theorem simple_not_par (x : Xml) (h : isBlockish x = false) : (x.ptag == paragraphTag) = false := by
  cases hb : x.ptag == paragraphTag with
  | false => rfl
  | true =>
    have e : x.ptag = paragraphTag := by simpa using hb
    unfold isBlockish at h; rw [e, tagMember_paragraph] at h; simp at h

theorem simple_not_cell (x : Xml) (h : isBlockish x = false) : isCellTag x = false := by
  cases hb : isCellTag x with
  | false => rfl
  | true =>
    have e : x.ptag = lit "w:tc" := by simpa [isCellTag] using hb
    unfold isBlockish at h; rw [e, tagMember_tc] at h; simp at h

mutual
theorem nearestPar_simple : (x : Xml) → simple x = true → nearestPar x = none
  | .elem i p t m a tx tl ks, h => by
    simp only [simple, Bool.and_eq_true, Bool.not_eq_true'] at h
    simp only [nearestPar, simple_not_par _ h.1, Bool.false_eq_true, if_false, nearestParL_simple ks h.2, Option.map_none]
  | .comment _ _, _ => rfl
  | .pi _, _ => rfl
theorem nearestParL_simple : (xs : List Xml) → simpleL xs = true → nearestParL xs = none
  | [], _ => rfl
  | k :: ks, h => by
    simp only [simpleL, Bool.and_eq_true] at h
    simp only [nearestParL, nearestPar_simple k h.1, nearestParL_simple ks h.2, optMin]
end

theorem elemDepth_simple (x : Xml) (h : simple x = true) : elemDepth x = none := by
  unfold elemDepth
  split
  · rfl
  · simp [nearestPar_simple x h]

theorem openRuns_link (cfg : PartCfg) (k : Nat) (x : Xml) (l1 l2 : M Str) (st : RS)
    (h : tagMember x.ptag ≠ some "HYPERLINK") : openRuns cfg k x l1 st = openRuns cfg k x l2 st := by
  unfold openRuns
  split <;> first | rfl | (rename_i hm; exact absurd hm h)

mutual
/-- **inline content refines the run-string machine** (html off): inside one open paragraph, walking
`x` changes nothing but that paragraph's runs and the ranges, and both as `runsOf` says -/
theorem walk_runs (cfg : PartCfg) (hc : cfg.html = false) (num : Dict Str (List NumAttr)) (k : Nat) (c : Bool) :
    (x : Xml) → (s s' : DC) → (p : Par) → simple x = true → In s k p → walk cfg num c s x = .ok s' →
      ∃ p', In s' k p' ∧ s'.root = s.root ∧ runsOf cfg k (linksOf cfg num c) x (absS s p) = .ok (absS s' p')
  | .elem i pf t m a tx tl ks, s, s', p, hs, hin, h => by
    have hd := elemDepth_simple _ hs
    simp only [simple, Bool.and_eq_true, Bool.not_eq_true'] at hs
    have hcell := simple_not_cell _ hs.1
    simp only [walk, hd, setCaret_none, ok_bind, hcell, Bool.or_false] at h
    obtain ⟨roots, hroots, h⟩ := bind_ok h
    obtain ⟨⟨s2, rec⟩, h2, h⟩ := bind_ok h
    obtain ⟨s3, h3, h⟩ := bind_ok h
    obtain ⟨s4, h4, h⟩ := bind_ok h
    have := pure_ok h; subst this
    obtain ⟨p2, i2, r2, o2⟩ := openStep_runs cfg hc s s2 k p _ c roots rec hs.1 hin h2
    -- the link text the spec uses is the one the walk computed
    have o2' : openRuns cfg k (.elem i pf t m a tx tl ks) (linksOf cfg num c (.elem i pf t m a tx tl ks)) (absS s p) = .ok (absS s2 p2, rec) := by
      by_cases hl : ((Xml.elem i pf t m a tx tl ks).ptag == hyperlinkTag) = true
      · simp only [hl, if_true] at hroots
        have : linksOf cfg num c (.elem i pf t m a tx tl ks) = rootsText roots := by
          simp only [linksOf, Xml.kids, hroots, ok_bind]
        rw [this]; exact o2
      · have hne : tagMember (Xml.elem i pf t m a tx tl ks).ptag ≠ some "HYPERLINK" := by
          intro hm; exact hl (by rw [hyperlink_of_member _ hm]; simp)
        rw [openRuns_link cfg k _ _ (rootsText roots) _ hne]; exact o2
    simp only [runsOf, o2', ok_bind]
    simp only at h3
    cases rec with
    | true =>
      simp only [if_true] at h3 ⊢
      obtain ⟨p3, i3, r3, o3⟩ := walkL_runs cfg hc num k c ks s2 s3 p2 hs.2 i2 h3
      obtain ⟨p4, i4, r4, o4⟩ := closeStep_runs cfg hc s3 s4 k p3 _ hs.1 i3 h4
      exact ⟨p4, i4, (r4.trans r3).trans r2, by simp only [o3, ok_bind, o4]; rfl⟩
    | false =>
      simp only [Bool.false_eq_true, if_false] at h3 ⊢
      have := pure_ok h3; subst this
      obtain ⟨p4, i4, r4, o4⟩ := closeStep_runs cfg hc s2 s4 k p2 _ hs.1 i2 h4
      exact ⟨p4, i4, r4.trans r2, by simp only [pure, Except.pure, ok_bind, o4]⟩
  | .comment _ _, s, s', p, _, hin, h => by
    simp only [walk] at h; have := pure_ok h; subst this; exact ⟨p, hin, rfl, rfl⟩
  | .pi _, s, s', p, _, hin, h => by
    simp only [walk] at h; have := pure_ok h; subst this; exact ⟨p, hin, rfl, rfl⟩
theorem walkL_runs (cfg : PartCfg) (hc : cfg.html = false) (num : Dict Str (List NumAttr)) (k : Nat) (c : Bool) :
    (xs : List Xml) → (s s' : DC) → (p : Par) → simpleL xs = true → In s k p → walkL cfg num c s xs = .ok s' →
      ∃ p', In s' k p' ∧ s'.root = s.root ∧ runsOfL cfg k (linksOf cfg num c) xs (absS s p) = .ok (absS s' p')
  | [], s, s', p, _, hin, h => by
    simp only [walkL] at h; have := pure_ok h; subst this; exact ⟨p, hin, rfl, rfl⟩
  | x :: xs, s, s', p, hs, hin, h => by
    simp only [simpleL, Bool.and_eq_true] at hs
    simp only [walkL] at h
    obtain ⟨s1, h1, h⟩ := bind_ok h
    obtain ⟨p1, i1, r1, o1⟩ := walk_runs cfg hc num k c x s s1 p hs.1 hin h1
    obtain ⟨p2, i2, r2, o2⟩ := walkL_runs cfg hc num k c xs s1 s' p1 hs.2 i1 h
    exact ⟨p2, i2, r2.trans r1, by simp only [runsOfL, o1, ok_bind, o2]⟩
end

end D2P
