import D2P.Spec.Runs
import D2P.Proofs.StyleOK
import D2P.Proofs.Total
import D2P.Proofs.Paragraph
/-!
# The walk refines the run machine (both html modes)
-/
namespace D2P

/-! ## run lists as machine states -/

def kept (rs : List Run) : List Run := rs.flatMap keep

def lastRun (rs : List Run) : Run := rs.getLast?.getD { style := [], text := [] }

/-- what a paragraph's run list means to the machine -/
def absP (p : Par) : RState := (kept p.runs.dropLast, lastRun p.runs)

theorem kept_append (a b : List Run) : kept (a ++ b) = kept a ++ kept b := by simp [kept]

theorem kept_split (rs : List Run) : kept rs = kept rs.dropLast ++ keep (lastRun rs) := by
  cases h : rs.getLast? with
  | none =>
    have : rs = [] := by simpa using h
    subst this; simp [kept, lastRun, keep]
  | some l =>
    have hne : rs ≠ [] := by intro e; subst e; simp at h
    have hl : rs.getLast hne = l := by rw [List.getLast?_eq_some_getLast hne] at h; exact Option.some.inj h
    have hs := List.dropLast_concat_getLast hne
    rw [hl] at hs
    conv => lhs; rw [← hs]
    simp [kept_append, kept, lastRun, h]

theorem absP_runs (p : Par) : (absP p).runs = kept p.runs := by
  unfold absP RState.runs; exact (kept_split p.runs).symm

theorem absP_count (p : Par) : (absP p).count = (kept p.runs).length := by
  rw [← absP_runs]; simp [RState.count, RState.runs]

theorem absP_append (p : Par) (r : Run) :
    absP { p with runs := p.runs ++ [r] } = ((absP p).1 ++ keep (absP p).2, r) := by
  simp only [absP, List.dropLast_concat, lastRun, List.getLast?_append, List.getLast?_singleton, Option.some_or,
    Option.getD_some]
  rw [kept_split p.runs]; rfl

theorem absP_append2 (p : Par) (a b : Run) :
    absP { p with runs := p.runs ++ [a, b] } = ((absP p).1 ++ keep (absP p).2 ++ keep a, b) := by
  have : p.runs ++ [a, b] = (p.runs ++ [a]) ++ [b] := by simp
  simp only [absP, this, List.dropLast_concat, lastRun, List.getLast?_append, List.getLast?_singleton, Option.some_or,
    Option.getD_some]
  rw [kept_append, kept_split p.runs]
  simp [kept, lastRun]

theorem absP_appendToLast (p : Par) (t : Str) (hne : p.runs ≠ []) :
    absP (appendToLastRun p t) = ((absP p).1, { (absP p).2 with text := (absP p).2.text ++ t }) := by
  unfold appendToLastRun
  cases h : p.runs.getLast? with
  | none => exact absurd (by simpa using h) hne
  | some l =>
    simp only [absP, List.dropLast_concat, lastRun, List.getLast?_append, List.getLast?_singleton, Option.some_or,
      Option.getD_some, h]

theorem lastRunStyle_abs (p : Par) : lastRunStyle p = (absP p).2.style := by
  unfold lastRunStyle absP lastRun
  cases p.runs.getLast? <;> rfl

/-! ## rendering: a run gives a string iff it has text -/

theorem runStr_len (r : Run) (h : okStyles r.style) : ∃ s, r.str = .ok s ∧ s.isEmpty = r.text.isEmpty := by
  unfold Run.str
  split
  · rename_i he; exact ⟨[], rfl, by rw [he]; rfl⟩
  · rename_i he
    obtain ⟨c, hc⟩ := htmlClose_ok _ h
    refine ⟨_, by simp only [hc, ok_bind]; rfl, ?_⟩
    have hne : r.text ≠ [] := by intro e; rw [e] at he; simp at he
    cases ht : r.text with
    | nil => exact absurd ht hne
    | cons ch rest =>
      have : htmlOpen r.style ++ (ch :: rest) ++ c ≠ [] := by simp
      cases hh : htmlOpen r.style ++ (ch :: rest) ++ c with
      | nil => exact absurd hh this
      | cons _ _ => rfl

theorem runStrs_len : ∀ (rs : List Run), (∀ r ∈ rs, okStyles r.style) → ∃ ss, runStrs rs = .ok ss ∧ ss.length = (kept rs).length
  | [], _ => ⟨[], rfl, rfl⟩
  | r :: rs, h => by
    obtain ⟨s, hs, he⟩ := runStr_len r (h r (by simp))
    obtain ⟨ss, hss, hl⟩ := runStrs_len rs (fun q hq => h q (List.mem_cons_of_mem _ hq))
    refine ⟨if s.isEmpty then ss else s :: ss, by simp only [runStrs, hs, ok_bind, hss]; rfl, ?_⟩
    simp only [kept, List.flatMap_cons, keep, List.length_append] at hl ⊢
    rw [he]
    split <;> simp [hl, kept] <;> omega

theorem runStrings_len (p : Par) (hp : p.sty okStyles) :
    ∃ l, p.runStrings = .ok l ∧ l.length = (if p.htmlStyle.isEmpty then 0 else 2) + (kept p.runs).length := by
  obtain ⟨ss, hss, hl⟩ := runStrs_len p.runs hp.2
  unfold Par.runStrings
  simp only [hss, ok_bind]
  split
  · exact ⟨ss, rfl, by simp [hl]⟩
  · obtain ⟨c, hc⟩ := htmlClose_ok _ hp.1
    exact ⟨_, by simp only [hc, ok_bind]; rfl, by simp [hl]; omega⟩

/-! ## inside one open paragraph -/

def tagOff (tag : Bool) : Nat := if tag then 1 else 0

/-- the collector is inside exactly one open paragraph `p`; the finished paragraphs hold `k0` strings;
`tag`: the paragraph has an opening tag of its own (a heading, with html on) -/
structure In (s : DC) (k0 : Nat) (tag : Bool) (p : Par) : Prop where
  one : s.openPars = [p]
  leaf : countStrings (leafParsL s.root) = .ok k0
  sty : Sty okStyles s
  noq : s.queued = []
  tagged : p.htmlStyle.isEmpty = !tag

def absS (s : DC) (p : Par) : RS := ⟨absP p, s.ranges⟩

theorem In.hasTop {s : DC} {k0 : Nat} {tag : Bool} {p : Par} (h : In s k0 tag p) : HasTop s := ⟨p, by rw [h.one]; rfl⟩

theorem In.countRuns {s : DC} {k0 : Nat} {tag : Bool} {p : Par} (h : In s k0 tag p) :
    s.countRuns = .ok (k0 + tagOff tag + (absP p).count) := by
  unfold DC.countRuns
  have hp : p.sty okStyles := h.sty.open_ p (by rw [h.one]; simp)
  obtain ⟨ss, hss, hl⟩ := runStrs_len p.runs hp.2
  have hrs : p.runStrings = (if p.htmlStyle.isEmpty then pure ss else
      (htmlClose p.htmlStyle) >>= fun c => pure ([htmlOpen p.htmlStyle] ++ ss ++ [c])) := by
    unfold Par.runStrings; simp only [hss, ok_bind]
  simp only [h.leaf, ok_bind, h.one, openParCount, hrs]
  cases tag with
  | false =>
    have he : p.htmlStyle.isEmpty = true := by simpa using h.tagged
    simp only [he, if_true, pure, Except.pure, ok_bind, tagOff, Bool.false_eq_true, if_false, absP_count, hl]
    rfl
  | true =>
    have he : p.htmlStyle.isEmpty = false := by simpa using h.tagged
    obtain ⟨c, hc⟩ := htmlClose_ok _ hp.1
    simp only [he, Bool.false_eq_true, if_false, hc, pure, Except.pure, ok_bind, tagOff, if_true, absP_count,
      List.length_append, List.length_cons, List.length_nil, hl]
    show Except.ok _ = Except.ok _
    congr 1; omega

theorem modTop_one (s : DC) (p : Par) (f : Par → Par) (h : s.openPars = [p]) :
    (s.modTop f).openPars = [f p] ∧ (s.modTop f).root = s.root ∧ (s.modTop f).ranges = s.ranges := by
  unfold DC.modTop; simp [h]

theorem in_modTop {s : DC} {k0 : Nat} {tag : Bool} {p : Par} (h : In s k0 tag p) (f : Par → Par) (hu : Sty okStyles (s.modTop f))
    (hfh : (f p).htmlStyle = p.htmlStyle) : In (s.modTop f) k0 tag (f p) :=
  ⟨(modTop_one s p f h.one).1, by rw [(modTop_one s p f h.one).2.1]; exact h.leaf, hu, by rw [modTop_queued]; exact h.noq,
    by rw [hfh]; exact h.tagged⟩

/-- one step of the machine on the runs, the ranges untouched -/
def StepR (s s' : DC) (k0 : Nat) (tag : Bool) (p : Par) (g : RState → RState) : Prop :=
  ∃ p', In s' k0 tag p' ∧ s'.root = s.root ∧ s'.ranges = s.ranges ∧ absP p' = g (absP p)

theorem commenceRun_runs (html : Bool) (s s' : DC) (k0 : Nat) (tag : Bool) (p : Par) (e : Option Xml) (h : In s k0 tag p)
    (he : s.commenceRun html e = .ok s') :
    ∃ st, (match e with | some x => runFormatting html x | none => pure []) = .ok st ∧ StepR s s' k0 tag p (fun r => r.newRun st) := by
  have hu := commenceRun_sty (okSpec html) s s' e h.sty he
  unfold DC.commenceRun at he
  obtain ⟨st, hst, he⟩ := bind_ok he
  rw [ensurePar_hasTop html s h.hasTop] at he
  obtain ⟨s1, h1, he⟩ := bind_ok he
  cases h1
  have := pure_ok he; subst this
  obtain ⟨_, m2, m3⟩ := modTop_one s p (fun p => { p with runs := p.runs ++ [{ style := st }] }) h.one
  exact ⟨st, hst, _, in_modTop h _ hu rfl, m2, m3, by rw [absP_append]; rfl⟩

theorem ensureRun_runs (html : Bool) (s s' : DC) (k0 : Nat) (tag : Bool) (p : Par) (h : In s k0 tag p) (he : s.ensureRun html = .ok s') :
    ∃ p', In s' k0 tag p' ∧ s'.root = s.root ∧ s'.ranges = s.ranges ∧ absP p' = absP p ∧ p'.runs ≠ [] := by
  have hu := ensureRun_sty (okSpec html) s s' h.sty he
  unfold DC.ensureRun at he
  rw [ensurePar_hasTop html s h.hasTop] at he
  obtain ⟨s1, h1, he⟩ := bind_ok he
  cases h1
  have := pure_ok he; subst this
  obtain ⟨_, m2, m3⟩ := modTop_one s p (fun p => if p.runs.isEmpty then { p with runs := [{}] } else p) h.one
  refine ⟨_, in_modTop h _ hu (by split <;> rfl), m2, m3, ?_, ?_⟩
  · split
    · rename_i he'
      have : p.runs = [] := List.isEmpty_iff.1 he'
      simp [absP, this, kept, lastRun]
    · rfl
  · split
    · simp
    · rename_i he'; intro e; rw [e] at he'; simp at he'

theorem addCode_runs (html : Bool) (s s' : DC) (k0 : Nat) (tag : Bool) (p : Par) (t : Str) (h : In s k0 tag p)
    (he : s.addCode html t = .ok s') : StepR s s' k0 tag p (fun r => r.txt t) := by
  have hu := addCode_sty (okSpec html) s s' t h.sty he
  unfold DC.addCode at he
  obtain ⟨s1, h1, he⟩ := bind_ok he
  obtain ⟨p1, i1, r1, g1, a1, n1⟩ := ensureRun_runs html s s1 k0 tag p h h1
  have := pure_ok he; subst this
  obtain ⟨_, m2, m3⟩ := modTop_one s1 p1 (fun p => appendToLastRun p t) i1.one
  have hfh : (appendToLastRun p1 t).htmlStyle = p1.htmlStyle := by unfold appendToLastRun; split <;> rfl
  exact ⟨_, in_modTop i1 _ hu hfh, m2.trans r1, m3.trans g1, by rw [absP_appendToLast p1 t n1, a1]; rfl⟩

theorem insertNewRun_runs (html : Bool) (s s' : DC) (k0 : Nat) (tag : Bool) (p : Par) (t : Str) (h : In s k0 tag p)
    (he : s.insertNewRun html t = .ok s') : StepR s s' k0 tag p (fun r => r.ins t) := by
  have hu := insertNewRun_sty (okSpec html) s s' t h.sty he
  unfold DC.insertNewRun at he
  obtain ⟨s1, h1, he⟩ := bind_ok he
  obtain ⟨p1, i1, r1, g1, a1, _⟩ := ensureRun_runs html s s1 k0 tag p h h1
  have := pure_ok he; subst this
  obtain ⟨_, m2, m3⟩ := modTop_one s1 p1 (fun p => { p with runs := p.runs ++ [{ style := [], text := t }, { style := lastRunStyle p }] }) i1.one
  exact ⟨_, in_modTop i1 _ hu rfl, m2.trans r1, m3.trans g1, by rw [absP_append2, lastRunStyle_abs, a1]; rfl⟩

theorem insertOpt_runs (html : Bool) (s s' : DC) (k0 : Nat) (tag : Bool) (p : Par) (t : Option Str) (h : In s k0 tag p)
    (he : insertOpt html s t = .ok s') : StepR s s' k0 tag p (fun r => r.insOpt t) := by
  unfold insertOpt at he
  cases t with
  | none => have := pure_ok he; subst this; exact ⟨p, h, rfl, rfl, rfl⟩
  | some t => exact insertNewRun_runs html s s' k0 tag p t h he

/-! ## markers -/

theorem startRange_runs (s s' : DC) (k0 : Nat) (tag : Bool) (p : Par) (id : Str) (h : In s k0 tag p) (he : s.startRange id = .ok s') :
    In s' k0 tag p ∧ s'.root = s.root ∧ absS s' p = (absS s p).start (k0 + tagOff tag) id := by
  have hu := startRange_sty s s' id h.sty he
  unfold DC.startRange at he
  rw [h.countRuns] at he
  have := pure_ok he; subst this
  exact ⟨⟨h.one, h.leaf, hu, h.noq, h.tagged⟩, rfl, rfl⟩

theorem endRange_runs (s s' : DC) (k0 : Nat) (tag : Bool) (p : Par) (id : Str) (h : In s k0 tag p) (he : s.endRange id = .ok s') :
    In s' k0 tag p ∧ s'.root = s.root ∧ absS s' p = (absS s p).stop (k0 + tagOff tag) id := by
  have hu := endRange_sty s s' id h.sty he
  unfold DC.endRange at he
  rw [h.countRuns] at he
  have := pure_ok he; subst this
  exact ⟨⟨h.one, h.leaf, hu, h.noq, h.tagged⟩, rfl, rfl⟩

theorem foldIds_start (k0 : Nat) (tag : Bool) (p : Par) : ∀ (ms : List Xml) (s s' : DC), In s k0 tag p → foldIds DC.startRange s ms = .ok s' →
    In s' k0 tag p ∧ s'.root = s.root ∧ foldMarkers (fun st id => st.start (k0 + tagOff tag) id) (absS s p) ms = .ok (absS s' p)
  | [], s, s', h, he => by simp only [foldIds] at he; have := pure_ok he; subst this; exact ⟨h, rfl, rfl⟩
  | m :: ms, s, s', h, he => by
    simp only [foldIds] at he
    obtain ⟨id, hid, he⟩ := bind_ok he
    obtain ⟨s1, h1, he⟩ := bind_ok he
    obtain ⟨i1, r1, a1⟩ := startRange_runs s s1 k0 tag p id h h1
    obtain ⟨i2, r2, a2⟩ := foldIds_start k0 tag p ms s1 s' i1 he
    exact ⟨i2, r2.trans r1, by simp only [foldMarkers, hid, ok_bind, ← a1]; exact a2⟩

theorem foldIds_stop (k0 : Nat) (tag : Bool) (p : Par) : ∀ (ms : List Xml) (s s' : DC), In s k0 tag p → foldIds DC.endRange s ms = .ok s' →
    In s' k0 tag p ∧ s'.root = s.root ∧ foldMarkers (fun st id => st.stop (k0 + tagOff tag) id) (absS s p) ms = .ok (absS s' p)
  | [], s, s', h, he => by simp only [foldIds] at he; have := pure_ok he; subst this; exact ⟨h, rfl, rfl⟩
  | m :: ms, s, s', h, he => by
    simp only [foldIds] at he
    obtain ⟨id, hid, he⟩ := bind_ok he
    obtain ⟨s1, h1, he⟩ := bind_ok he
    obtain ⟨i1, r1, a1⟩ := endRange_runs s s1 k0 tag p id h h1
    obtain ⟨i2, r2, a2⟩ := foldIds_stop k0 tag p ms s1 s' i1 he
    exact ⟨i2, r2.trans r1, by simp only [foldMarkers, hid, ok_bind, ← a1]; exact a2⟩


/-! ## the open and close steps -/

theorem stepR_out {s s' : DC} {k0 : Nat} {tag : Bool} {p : Par} {g : RState → RState} (h : StepR s s' k0 tag p g) :
    ∃ p', In s' k0 tag p' ∧ s'.root = s.root ∧ absS s' p' = { absS s p with r := g (absS s p).r } := by
  obtain ⟨p', hi, hr, hg, ha⟩ := h
  exact ⟨p', hi, hr, by simp only [absS, hg, ha]⟩

theorem openStep_runs (cfg : PartCfg) (s s' : DC) (k0 : Nat) (tag : Bool) (p : Par) (x : Xml) (c : Bool)
    (roots : List (List Nest)) (r : Bool) (hx : isBlockish x = false) (h : In s k0 tag p)
    (he : openStep cfg s x c roots = .ok (s', r)) :
    ∃ p', In s' k0 tag p' ∧ s'.root = s.root ∧
      openRuns cfg (k0 + tagOff tag) x (rootsText roots) (absS s p) = .ok (absS s' p', r) := by
  unfold openStep at he
  unfold isBlockish at hx
  unfold openRuns
  split at he
  · rename_i hm; rw [hm] at hx; simp at hx
  · rename_i hm
    obtain ⟨h1, rfl⟩ := withTrue_ok he
    obtain ⟨st, hst, hstep⟩ := commenceRun_runs cfg.html s s' k0 tag p _ h h1
    obtain ⟨p', hi, hr, ha⟩ := stepR_out hstep
    simp only at hst
    exact ⟨p', hi, hr, by simp only [hm, hst, ok_bind, ha]; rfl⟩
  · rename_i hm
    obtain ⟨h1, rfl⟩ := withFalse_ok he
    obtain ⟨id, hid, h1⟩ := bind_ok h1
    obtain ⟨hi, hr, ha⟩ := endRange_runs s s' k0 tag p id h h1
    exact ⟨p, hi, hr, by simp only [hm, hid, ok_bind, ha]; rfl⟩
  · rename_i hm
    obtain ⟨h1, rfl⟩ := withFalse_ok he
    obtain ⟨id, hid, h1⟩ := bind_ok h1
    obtain ⟨hi, hr, ha⟩ := startRange_runs s s' k0 tag p id h h1
    exact ⟨p, hi, hr, by simp only [hm, hid, ok_bind, ha]; rfl⟩
  · rename_i hm
    obtain ⟨h1, rfl⟩ := withTrue_ok he
    obtain ⟨p', hi, hr, ha⟩ := stepR_out (addCode_runs cfg.html s s' k0 tag p _ h (by simpa [DC.addText] using h1))
    exact ⟨p', hi, hr, by simp only [hm, ha]; rfl⟩
  · rename_i hm
    obtain ⟨h1, rfl⟩ := withTrue_ok he
    obtain ⟨p', hi, hr, ha⟩ := stepR_out (addCode_runs cfg.html s s' k0 tag p _ h (by simpa [DC.addText] using h1))
    exact ⟨p', hi, hr, by simp only [hm, ha]; rfl⟩
  · rename_i hm
    obtain ⟨h1, rfl⟩ := withFalse_ok he
    obtain ⟨p', hi, hr, ha⟩ := stepR_out (insertNewRun_runs cfg.html s s' k0 tag p _ h h1)
    exact ⟨p', hi, hr, by simp only [hm, ha]; rfl⟩
  · rename_i hm
    obtain ⟨h1, rfl⟩ := withTrue_ok he
    obtain ⟨p', hi, hr, ha⟩ := stepR_out (addCode_runs cfg.html s s' k0 tag p _ h h1)
    exact ⟨p', hi, hr, by simp only [hm, ha]; rfl⟩
  · rename_i hm
    obtain ⟨h1, rfl⟩ := withTrue_ok he
    obtain ⟨cd, hcd, h1⟩ := bind_ok h1
    cases cd with
    | none =>
      simp only at h1; have := pure_ok h1; subst this
      exact ⟨p, h, rfl, by simp only [hm, hcd, ok_bind]; rfl⟩
    | some cd =>
      simp only at h1
      obtain ⟨p', hi, hr, ha⟩ := stepR_out (addCode_runs cfg.html s s' k0 tag p _ h h1)
      exact ⟨p', hi, hr, by simp only [hm, hcd, ok_bind, ha]; rfl⟩
  · rename_i hm; rw [hm] at hx; simp at hx
  · rename_i hm; rw [hm] at hx; simp at hx
  · rename_i hm
    obtain ⟨h1, rfl⟩ := withFalse_ok he
    unfold openHyperlink at h1
    obtain ⟨tx, htx, h1⟩ := bind_ok h1
    obtain ⟨qs, hqs, h1⟩ := bind_ok h1
    obtain ⟨s1, hs1, h1⟩ := bind_ok h1
    obtain ⟨rn, hrn, h1⟩ := bind_ok h1
    obtain ⟨s2, hs2, h1⟩ := bind_ok h1
    obtain ⟨qe, hqe, h1⟩ := bind_ok h1
    obtain ⟨i1, r1, a1⟩ := foldIds_start k0 tag p _ s s1 h hs1
    obtain ⟨p2, i2, r2, a2⟩ := stepR_out (insertNewRun_runs cfg.html s1 s2 k0 tag p rn i1 hs2)
    obtain ⟨i3, r3, a3⟩ := foldIds_stop k0 tag p2 _ s2 s' i2 h1
    refine ⟨p2, i3, (r3.trans r2).trans r1, ?_⟩
    simp only [hm, htx, ok_bind, hqs, a1, hrn, hqe]
    rw [← a2, a3]; rfl
  · rename_i hm
    obtain ⟨h1, rfl⟩ := withTrue_ok he
    obtain ⟨t, ht, h1⟩ := bind_ok h1
    obtain ⟨p', hi, hr, ha⟩ := stepR_out (insertNewRun_runs cfg.html s s' k0 tag p _ h h1)
    exact ⟨p', hi, hr, by simp only [hm, ht, ok_bind, ha]; rfl⟩
  · rename_i hm
    obtain ⟨h1, rfl⟩ := withTrue_ok he
    obtain ⟨t, ht, h1⟩ := bind_ok h1
    obtain ⟨p', hi, hr, ha⟩ := stepR_out (insertNewRun_runs cfg.html s s' k0 tag p _ h h1)
    exact ⟨p', hi, hr, by simp only [hm, ht, ok_bind, ha]; rfl⟩
  · rename_i hm
    obtain ⟨h1, rfl⟩ := withTrue_ok he
    obtain ⟨t, ht, h1⟩ := bind_ok h1
    obtain ⟨p', hi, hr, ha⟩ := stepR_out (insertNewRun_runs cfg.html s s' k0 tag p _ h h1)
    exact ⟨p', hi, hr, by simp only [hm, ht, ok_bind, ha]; rfl⟩
  · rename_i hm
    obtain ⟨h1, rfl⟩ := withTrue_ok he
    obtain ⟨t, ht, h1⟩ := bind_ok h1
    obtain ⟨p', hi, hr, ha⟩ := stepR_out (insertNewRun_runs cfg.html s s' k0 tag p _ h h1)
    exact ⟨p', hi, hr, by simp only [hm, ht, ok_bind, ha]; rfl⟩
  · rename_i hm
    obtain ⟨h1, rfl⟩ := withTrue_ok he
    obtain ⟨t, ht, h1⟩ := bind_ok h1
    obtain ⟨p', hi, hr, ha⟩ := stepR_out (insertOpt_runs cfg.html s s' k0 tag p _ h h1)
    exact ⟨p', hi, hr, by simp only [hm, ht, ok_bind, ha]; rfl⟩
  · rename_i hm
    obtain ⟨h1, rfl⟩ := withTrue_ok he
    obtain ⟨t, ht, h1⟩ := bind_ok h1
    obtain ⟨p', hi, hr, ha⟩ := stepR_out (insertOpt_runs cfg.html s s' k0 tag p _ h h1)
    exact ⟨p', hi, hr, by simp only [hm, ht, ok_bind, ha]; rfl⟩
  · rename_i hm
    obtain ⟨h1, rfl⟩ := withTrue_ok he
    obtain ⟨p', hi, hr, ha⟩ := stepR_out (insertOpt_runs cfg.html s s' k0 tag p _ h h1)
    exact ⟨p', hi, hr, by simp only [hm, ha]; rfl⟩
  · rename_i hm
    obtain ⟨h1, rfl⟩ := withTrue_ok he
    obtain ⟨p', hi, hr, ha⟩ := stepR_out (insertNewRun_runs cfg.html s s' k0 tag p _ h h1)
    exact ⟨p', hi, hr, by simp only [hm, ha]; rfl⟩
  · have := pure_ok he; cases this
    refine ⟨p, h, rfl, ?_⟩
    split <;> first | rfl | (exfalso; simp_all)

theorem closeStep_runs (cfg : PartCfg) (s s' : DC) (k0 : Nat) (tag : Bool) (p : Par) (x : Xml)
    (hx : isBlockish x = false) (h : In s k0 tag p) (hd : elemDepth x = none) (he : closeStep cfg s x = .ok s') :
    ∃ p', In s' k0 tag p' ∧ s'.root = s.root ∧ absS s' p' = closeRuns x (absS s p) := by
  rw [closeStep_depth_none cfg s x hd] at he
  unfold closeStepCore at he
  unfold isBlockish at hx
  unfold closeRuns
  split at he
  · rename_i hm; rw [hm] at hx; simp at hx
  · rename_i hm
    obtain ⟨st, hst, hstep⟩ := commenceRun_runs cfg.html s s' k0 tag p none h he
    obtain ⟨p', hi, hr, ha⟩ := stepR_out hstep
    have hst0 : st = [] := (pure_ok hst).symm
    subst hst0
    exact ⟨p', hi, hr, by simp only [hm, ha]⟩
  · rename_i hm; rw [hm] at hx; simp at hx
  · have := pure_ok he; subst this
    refine ⟨p, h, rfl, ?_⟩
    split <;> first | rfl | (exfalso; simp_all)

/-! ## the walk over inline content -/

theorem table_hyperlink : tagTable.all (fun e => !(e.2 == "HYPERLINK") || e.1 == hyperlinkTag) = true := by decide
theorem table_paragraph : tagTable.all (fun e => !(e.1 == paragraphTag) || e.2 == "PARAGRAPH") = true := by decide
theorem table_cell : tagTable.all (fun e => !(e.1 == lit "w:tc") || e.2 == "TABLE_CELL") = true := by decide

theorem hyperlink_of_member (pt : Str) (h : tagMember pt = some "HYPERLINK") : pt = hyperlinkTag := by
  unfold tagMember at h
  cases hf : tagTable.find? (fun e => e.1 == pt) with
  | none => simp [hf] at h
  | some e =>
    simp only [hf, Option.map_some, Option.some.injEq] at h
    have hm := List.mem_of_find?_eq_some hf
    have hp : (e.1 == pt) = true := by simpa using List.find?_some hf
    have := List.all_eq_true.1 table_hyperlink e hm
    simp only [h, beq_self_eq_true, Bool.not_true, Bool.false_or, beq_iff_eq] at this
    rw [← this]; exact (by simpa using hp : e.1 = pt).symm

theorem tagMember_tc : tagMember (lit "w:tc") = some "TABLE_CELL" := by decide

theorem simple_not_par (x : Xml) (h : isBlockish x = false) : (x.ptag == paragraphTag) = false := by
  cases hb : x.ptag == paragraphTag with
  | false => rfl
  | true =>
    have e : x.ptag = paragraphTag := by simpa using hb
    unfold isBlockish at h; rw [e, tagMember_paragraph] at h; simp at h

theorem simple_not_cell (x : Xml) (h : isBlockish x = false) : isCellTag x = false := by
  cases hb : isCellTag x with
  | false => rfl
  | true =>
    have e : x.ptag = lit "w:tc" := by simpa [isCellTag] using hb
    unfold isBlockish at h; rw [e, tagMember_tc] at h; simp at h

mutual
theorem nearestPar_simple : (x : Xml) → simple x = true → nearestPar x = none
  | .elem i p t m a tx tl ks, h => by
    simp only [simple, Bool.and_eq_true, Bool.not_eq_true'] at h
    simp only [nearestPar, simple_not_par _ h.1, Bool.false_eq_true, if_false, nearestParL_simple ks h.2, Option.map_none]
  | .comment _ _, _ => rfl
  | .pi _, _ => rfl
theorem nearestParL_simple : (xs : List Xml) → simpleL xs = true → nearestParL xs = none
  | [], _ => rfl
  | k :: ks, h => by
    simp only [simpleL, Bool.and_eq_true] at h
    simp only [nearestParL, nearestPar_simple k h.1, nearestParL_simple ks h.2, optMin]
end

theorem elemDepth_simple (x : Xml) (h : simple x = true) : elemDepth x = none := by
  unfold elemDepth
  split
  · rfl
  · simp [nearestPar_simple x h]

theorem openRuns_link (cfg : PartCfg) (k : Nat) (x : Xml) (l1 l2 : M Str) (st : RS)
    (h : tagMember x.ptag ≠ some "HYPERLINK") : openRuns cfg k x l1 st = openRuns cfg k x l2 st := by
  unfold openRuns
  split <;> first | rfl | (rename_i hm; exact absurd hm h)

mutual
/-- **inline content refines the run-string machine** (html off): inside one open paragraph, walking
`x` changes nothing but that paragraph's runs and the ranges, and both as `runsOf` says -/
theorem walk_runs (cfg : PartCfg) (num : Dict Str (List NumAttr)) (k0 : Nat) (tag : Bool) (c : Bool) :
    (x : Xml) → (s s' : DC) → (p : Par) → simple x = true → In s k0 tag p → walk cfg num c s x = .ok s' →
      ∃ p', In s' k0 tag p' ∧ s'.root = s.root ∧
        runsOf cfg (k0 + tagOff tag) (linksOf cfg num c) x (absS s p) = .ok (absS s' p')
  | .elem i pf t m a tx tl ks, s, s', p, hs, hin, h => by
    have hd := elemDepth_simple _ hs
    simp only [simple, Bool.and_eq_true, Bool.not_eq_true'] at hs
    have hcell := simple_not_cell _ hs.1
    simp only [walk, hd, setCaretOpen_none, setCaret_none, ok_bind, hcell, Bool.or_false] at h
    obtain ⟨roots, hroots, h⟩ := bind_ok h
    obtain ⟨⟨s2, rec⟩, h2, h⟩ := bind_ok h
    obtain ⟨s3, h3, h⟩ := bind_ok h
    obtain ⟨s4, h4, h⟩ := bind_ok h
    have := pure_ok h; subst this
    obtain ⟨p2, i2, r2, o2⟩ := openStep_runs cfg s s2 k0 tag p _ c roots rec hs.1 hin h2
    -- the link text the spec uses is the one the walk computed
    have o2' : openRuns cfg (k0 + tagOff tag) (.elem i pf t m a tx tl ks) (linksOf cfg num c (.elem i pf t m a tx tl ks)) (absS s p) = .ok (absS s2 p2, rec) := by
      by_cases hl : ((Xml.elem i pf t m a tx tl ks).ptag == hyperlinkTag) = true
      · simp only [hl, if_true] at hroots
        have : linksOf cfg num c (.elem i pf t m a tx tl ks) = rootsText roots := by
          simp only [linksOf, Xml.kids, hroots, ok_bind]
        rw [this]; exact o2
      · have hne : tagMember (Xml.elem i pf t m a tx tl ks).ptag ≠ some "HYPERLINK" := by
          intro hm; exact hl (by rw [hyperlink_of_member _ hm]; simp)
        rw [openRuns_link cfg (k0 + tagOff tag) _ _ (rootsText roots) _ hne]; exact o2
    simp only [runsOf, o2', ok_bind]
    simp only at h3
    cases rec with
    | true =>
      simp only [if_true] at h3 ⊢
      obtain ⟨p3, i3, r3, o3⟩ := walkL_runs cfg num k0 tag c ks s2 s3 p2 hs.2 i2 h3
      obtain ⟨p4, i4, r4, o4⟩ := closeStep_runs cfg s3 s4 k0 tag p3 _ hs.1 i3 hd h4
      exact ⟨p4, i4, (r4.trans r3).trans r2, by simp only [o3, ok_bind, o4]; rfl⟩
    | false =>
      simp only [Bool.false_eq_true, if_false] at h3 ⊢
      have := pure_ok h3; subst this
      obtain ⟨p4, i4, r4, o4⟩ := closeStep_runs cfg s2 s4 k0 tag p2 _ hs.1 i2 hd h4
      exact ⟨p4, i4, r4.trans r2, by simp only [pure, Except.pure, ok_bind, o4]⟩
  | .comment _ _, s, s', p, _, hin, h => by
    simp only [walk] at h; have := pure_ok h; subst this; exact ⟨p, hin, rfl, rfl⟩
  | .pi _, s, s', p, _, hin, h => by
    simp only [walk] at h; have := pure_ok h; subst this; exact ⟨p, hin, rfl, rfl⟩
theorem walkL_runs (cfg : PartCfg) (num : Dict Str (List NumAttr)) (k0 : Nat) (tag : Bool) (c : Bool) :
    (xs : List Xml) → (s s' : DC) → (p : Par) → simpleL xs = true → In s k0 tag p → walkL cfg num c s xs = .ok s' →
      ∃ p', In s' k0 tag p' ∧ s'.root = s.root ∧
        runsOfL cfg (k0 + tagOff tag) (linksOf cfg num c) xs (absS s p) = .ok (absS s' p')
  | [], s, s', p, _, hin, h => by
    simp only [walkL] at h; have := pure_ok h; subst this; exact ⟨p, hin, rfl, rfl⟩
  | x :: xs, s, s', p, hs, hin, h => by
    simp only [simpleL, Bool.and_eq_true] at hs
    simp only [walkL] at h
    obtain ⟨s1, h1, h⟩ := bind_ok h
    obtain ⟨p1, i1, r1, o1⟩ := walk_runs cfg num k0 tag c x s s1 p hs.1 hin h1
    obtain ⟨p2, i2, r2, o2⟩ := walkL_runs cfg num k0 tag c xs s1 s' p1 hs.2 i1 h
    exact ⟨p2, i2, r2.trans r1, by simp only [runsOfL, o1, ok_bind, o2]⟩
end

end D2P
