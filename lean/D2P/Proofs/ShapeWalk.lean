import D2P.Proofs.Shape
import D2P.Proofs.Hyperlink
/-!
# Every step of the walk preserves the collector invariant
-/
namespace D2P

theorem getRow_wf (root : List Nest) (ti ri : Nat) (cells : List Nest) (h : wfL 3 root = true)
    (hg : getRow root ti ri = .ok cells) : wfL 1 cells = true := by
  unfold getRow at hg
  split at hg
  · rename_i rows ht
    have h1 := wfL_getElem 3 root ti _ h ht
    simp only [wf] at h1
    split at hg
    · rename_i cs hr
      have h2 := wfL_getElem 2 rows ri _ h1 hr
      simp only [wf] at h2
      have := pure_ok hg; subst this; exact h2
    · simp at hg
  · simp at hg

theorem setRow_wf (root : List Nest) (ti ri : Nat) (cells : List Nest) (h : wfL 3 root = true)
    (hc : wfL 1 cells = true) : wfL 3 (setRow root ti ri cells) = true := by
  unfold setRow
  apply wfL_modify 3 root ti _ h
  intro x hx
  cases x with
  | par p => simp [wf] at hx
  | list rows =>
    simp only [wf] at hx ⊢
    exact wfL_set 2 rows ri _ hx (by simpa [wf] using hc)

theorem vmergeDo_inv (ti ri : Nat) (s s' : DC) (hs : Inv s) (h : vmergeDo ti ri s = .ok s') : Inv s' := by
  unfold vmergeDo at h
  obtain ⟨s1, h1, h⟩ := bind_ok h
  have i1 := setCaret_inv s s1 _ _ hs h1
  obtain ⟨thisTr, hg1, h⟩ := bind_ok h
  obtain ⟨prevTr, hg2, h⟩ := bind_ok h
  split at h
  · have := pure_ok h; subst this; exact i1
  · split at h
    · have := pure_ok h; subst this; exact i1
    · rename_i above ha
      have := pure_ok h; subst this
      refine ⟨?_, i1.lo, i1.hi⟩
      have wt := getRow_wf _ _ _ _ i1.shape hg1
      have wp := getRow_wf _ _ _ _ i1.shape hg2
      have wa := wfL_getElem 1 prevTr _ _ wp ha
      apply setRow_wf _ _ _ _ i1.shape
      rw [wfL_append]; simp [wfL_dropLast 1 _ wt, wfL, wf_markCopy 1 above wa]

theorem vmergeStep_inv (dup c : Bool) (n ti ri : Nat) (s s' : DC) (hs : Inv s)
    (h : vmergeStep dup c n ti ri s = .ok s') : Inv s' := by
  unfold vmergeStep at h
  split at h
  · exact vmergeDo_inv ti ri s s' hs h
  · have := pure_ok h; subst this; exact hs

theorem newCell_wf (dup : Bool) (thisTr : List Nest) (h : wfL 1 thisTr = true) : wf 1 (newCell dup thisTr) = true := by
  unfold newCell
  split
  · rename_i c hc; exact wf_markCopy 1 c (wfL_getLast 1 thisTr c h hc)
  · simp [wf, wfL]

theorem spanStep_inv (dup : Bool) (ti ri : Nat) (s s' : DC) (hs : Inv s) (h : spanStep dup ti ri s = .ok s') :
    Inv s' := by
  unfold spanStep at h
  obtain ⟨s1, h1, h⟩ := bind_ok h
  have i1 := setCaret_inv s s1 _ _ hs h1
  obtain ⟨thisTr, hg, h⟩ := bind_ok h
  have wt := getRow_wf _ _ _ _ i1.shape hg
  have := pure_ok h; subst this
  refine ⟨?_, i1.lo, i1.hi⟩
  apply setRow_wf _ _ _ _ i1.shape
  rw [wfL_append]; simp [wt, wfL, newCell_wf dup thisTr wt]

theorem iterateM_inv (f : DC → M DC) (hf : ∀ s s', Inv s → f s = .ok s' → Inv s') (n : Nat) (s s' : DC)
    (hs : Inv s) (h : iterateM f n s = .ok s') : Inv s' := by
  induction n generalizing s with
  | zero => simp only [iterateM] at h; have := pure_ok h; subst this; exact hs
  | succ n ih =>
    simp only [iterateM] at h
    obtain ⟨s1, h1, h⟩ := bind_ok h
    exact ih s1 (hf s s1 hs h1) h

theorem closeTableCell_inv (dup : Bool) (s s' : DC) (tc : Xml) (hs : Inv s)
    (h : closeTableCell dup s tc = .ok s') : Inv s' := by
  unfold closeTableCell at h
  split at h
  · have := pure_ok h; subst this; exact hs
  obtain ⟨pr, _, h⟩ := bind_ok h
  obtain ⟨cap, _, h⟩ := bind_ok h
  split at h
  · have := pure_ok h; subst this; exact hs
  · obtain ⟨s1, h1, h⟩ := bind_ok h
    have i1 := vmergeStep_inv _ _ _ _ _ s s1 hs h1
    obtain ⟨n, _, h⟩ := bind_ok h
    exact iterateM_inv _ (fun a b ia hab => spanStep_inv dup _ _ a b ia hab) _ s1 s' i1 h

theorem noteLabel_inv (s s' : DC) (x : Xml) (k : String) (hs : Inv s) (h : noteLabel s x k = .ok s') : Inv s' := by
  unfold noteLabel at h
  obtain ⟨sep, _, h⟩ := bind_ok h
  split at h
  · have := pure_ok h; subst this; exact hs
  · obtain ⟨id, _, h⟩ := bind_ok h
    obtain ⟨s0, h0, h⟩ := bind_ok h
    have i0 := flushImplicit_preserves concludePar_inv s s0 _ hs h0
    have := pure_ok h; subst this; exact inv_of_same s0 _ i0 rfl rfl

theorem insertOpt_inv (html : Bool) (s s' : DC) (t : Option Str) (hs : Inv s) (h : insertOpt html s t = .ok s') :
    Inv s' := by
  unfold insertOpt at h
  split at h
  · exact insertNewRun_inv html s s' _ hs h
  · have := pure_ok h; subst this; exact hs

theorem openParagraph_inv (cfg : PartCfg) (s s' : DC) (x : Xml) (c : Bool) (hs : Inv s)
    (h : openParagraph cfg s x c = .ok s') : Inv s' := by
  unfold openParagraph at h
  obtain ⟨s1, h1, h⟩ := bind_ok h
  have i1 := commencePar_inv cfg.html s s1 _ _ hs h1
  obtain ⟨bb, _, h⟩ := bind_ok h
  obtain ⟨s2, h2, h⟩ := bind_ok h
  have i2 := insertNewRun_inv cfg.html
    ({ s1 with bullets := (listPosition bb.1 x (x.id?.getD 0)).1 } : DC) s2 _ (inv_of_same s1 _ i1 rfl rfl) h2
  have := pure_ok h; subst this
  exact inv_of_same s2 _ i2 (modTop_same _ _).1 (modTop_same _ _).2

theorem withTrue_inv (x : M DC) (s' : DC) (r : Bool) (hx : ∀ t, x = .ok t → Inv t) (h : withTrue x = .ok (s', r)) :
    Inv s' := by
  unfold withTrue at h
  obtain ⟨t, ht, h⟩ := bind_ok h
  have := pure_ok h; cases this; exact hx _ ht

theorem withFalse_inv (x : M DC) (s' : DC) (r : Bool) (hx : ∀ t, x = .ok t → Inv t) (h : withFalse x = .ok (s', r)) :
    Inv s' := by
  unfold withFalse at h
  obtain ⟨t, ht, h⟩ := bind_ok h
  have := pure_ok h; cases this; exact hx _ ht

theorem openStep_inv (cfg : PartCfg) (s s' : DC) (x : Xml) (c : Bool) (roots : List (List Nest)) (r : Bool)
    (hs : Inv s) (h : openStep cfg s x c roots = .ok (s', r)) : Inv s' := by
  unfold openStep at h
  split at h
  · exact withTrue_inv _ s' r (fun t ht => openParagraph_inv cfg s t x c hs ht) h
  · exact withTrue_inv _ s' r (fun t ht => commenceRun_inv cfg.html s t _ hs ht) h
  · exact withFalse_inv _ s' r (fun t ht => by
      obtain ⟨id, _, ht⟩ := bind_ok ht; exact endRange_inv s t id hs ht) h
  · exact withFalse_inv _ s' r (fun t ht => by
      obtain ⟨id, _, ht⟩ := bind_ok ht; exact startRange_inv s t id hs ht) h
  · exact withTrue_inv _ s' r (fun t ht => addText_inv cfg.html s t _ hs ht) h
  · exact withTrue_inv _ s' r (fun t ht => addText_inv cfg.html s t _ hs ht) h
  · exact withFalse_inv _ s' r (fun t ht => insertNewRun_inv cfg.html s t _ hs ht) h
  · exact withTrue_inv _ s' r (fun t ht => addCode_inv cfg.html s t _ hs ht) h
  · exact withTrue_inv _ s' r (fun t ht => by
      obtain ⟨cde, _, ht⟩ := bind_ok ht
      split at ht
      · exact addCode_inv cfg.html s t _ hs ht
      · have := pure_ok ht; subst this; exact hs) h
  · exact withTrue_inv _ s' r (fun t ht => noteLabel_inv s t x _ hs ht) h
  · exact withTrue_inv _ s' r (fun t ht => noteLabel_inv s t x _ hs ht) h
  · exact withFalse_inv _ s' r (fun t ht => openHyperlink_preserves cfg (fun a id b ha hb => startRange_inv a b id ha hb)
      (fun a tx b ha hb => insertNewRun_inv cfg.html a b tx ha hb) (fun a id b ha hb => endRange_inv a b id ha hb) s t x roots hs ht) h
  · exact withTrue_inv _ s' r (fun t ht => by
      obtain ⟨tx, _, ht⟩ := bind_ok ht; exact insertNewRun_inv cfg.html s t _ hs ht) h
  · exact withTrue_inv _ s' r (fun t ht => by
      obtain ⟨tx, _, ht⟩ := bind_ok ht; exact insertNewRun_inv cfg.html s t _ hs ht) h
  · exact withTrue_inv _ s' r (fun t ht => by
      obtain ⟨tx, _, ht⟩ := bind_ok ht; exact insertNewRun_inv cfg.html s t _ hs ht) h
  · exact withTrue_inv _ s' r (fun t ht => by
      obtain ⟨tx, _, ht⟩ := bind_ok ht; exact insertNewRun_inv cfg.html s t _ hs ht) h
  · exact withTrue_inv _ s' r (fun t ht => by
      obtain ⟨tx, _, ht⟩ := bind_ok ht; exact insertOpt_inv cfg.html s t _ hs ht) h
  · exact withTrue_inv _ s' r (fun t ht => by
      obtain ⟨tx, _, ht⟩ := bind_ok ht; exact insertOpt_inv cfg.html s t _ hs ht) h
  · exact withTrue_inv _ s' r (fun t ht => insertOpt_inv cfg.html s t _ hs ht) h
  · exact withTrue_inv _ s' r (fun t ht => insertNewRun_inv cfg.html s t _ hs ht) h
  · have := pure_ok h; cases this; exact hs

theorem closeStepCore_inv (cfg : PartCfg) (s s' : DC) (x : Xml) (hs : Inv s) (h : closeStepCore cfg s x = .ok s') : Inv s' := by
  unfold closeStepCore at h
  split at h
  · exact concludePar_inv s s' hs h
  · exact commenceRun_inv cfg.html s s' none hs h
  · exact closeTableCell_inv cfg.dup s s' x hs h
  · have := pure_ok h; subst this; exact hs

theorem closeStep_inv (cfg : PartCfg) (s s' : DC) (x : Xml) (hs : Inv s) (h : closeStep cfg s x = .ok s') : Inv s' :=
  closeStep_preserves concludePar_inv cfg x (fun a b ha hb => closeStepCore_inv cfg a b x ha hb) s s' hs h

theorem setCaretOpen_inv (s s' : DC) (d : Option Nat) (n : Option Str) (hs : Inv s) (h : s.setCaretOpen d n = .ok s') : Inv s' :=
  setCaretOpen_preserves concludePar_inv (fun a b d n ha hb => setCaret_inv a b d n ha hb) s s' d n hs h

theorem finish_inv (cfg : PartCfg) (s s' : DC) (hs : Inv s) (h : finish cfg s = .ok s') : Inv s' := by
  unfold finish at h
  obtain ⟨s1, h1, h⟩ := bind_ok h
  have i1 : Inv s1 := by
    split at h1
    · have := pure_ok h1; subst this; exact hs
    · exact commencePar_inv cfg.html s s1 none false hs h1
  exact concludePar_inv s1 s' i1 h

mutual
theorem walk_inv (cfg : PartCfg) (num : Dict Str (List NumAttr)) :
    (x : Xml) → (c : Bool) → (s s' : DC) → Inv s → walk cfg num c s x = .ok s' → Inv s'
  | .elem i p t m a tx tl ks, c, s, s', hs, h => by
    simp only [walk] at h
    obtain ⟨s1, h1, h⟩ := bind_ok h
    have i1 := setCaretOpen_inv s s1 _ _ hs h1
    obtain ⟨roots, _, h⟩ := bind_ok h
    obtain ⟨⟨s2, rec⟩, h2, h⟩ := bind_ok h
    have i2 : Inv s2 := openStep_inv cfg s1 s2 _ c roots rec i1 h2
    obtain ⟨s3, h3, h⟩ := bind_ok h
    have i3 : Inv s3 := by
      simp only at h3
      split at h3
      · exact walkL_inv cfg num ks _ s2 s3 i2 h3
      · have := pure_ok h3; subst this; exact i2
    obtain ⟨s4, h4, h⟩ := bind_ok h
    exact setCaret_inv s4 s' _ _ (closeStep_inv cfg s3 s4 _ i3 h4) h
  | .comment _ _, c, s, s', hs, h => by simp only [walk] at h; have := pure_ok h; subst this; exact hs
  | .pi _, c, s, s', hs, h => by simp only [walk] at h; have := pure_ok h; subst this; exact hs
theorem walkL_inv (cfg : PartCfg) (num : Dict Str (List NumAttr)) :
    (xs : List Xml) → (c : Bool) → (s s' : DC) → Inv s → walkL cfg num c s xs = .ok s' → Inv s'
  | [], c, s, s', hs, h => by simp only [walkL] at h; have := pure_ok h; subst this; exact hs
  | k :: ks, c, s, s', hs, h => by
    simp only [walkL] at h
    obtain ⟨s1, h1, h⟩ := bind_ok h
    exact walkL_inv cfg num ks c s1 s' (walk_inv cfg num k c s s1 hs h1) h
end

theorem newDepthCollector_inv (cfg : PartCfg) (num : Dict Str (List NumAttr)) (root : Xml) (c : Bool) (dc : DC)
    (h : newDepthCollector cfg num root c = .ok dc) : Inv dc := by
  unfold newDepthCollector at h
  obtain ⟨s1, h1, h⟩ := bind_ok h
  exact finish_inv cfg s1 dc (walk_inv cfg num root c _ s1 (init_inv _) h1) h

end D2P
