import D2P.Proofs.StyleOK
import D2P.Props.C13Caret
/-!
# Totality of the collector operations under the invariant `TInv`

`TInv s` = the caret invariant of C13Caret (`Inv2`: four-level shape, depth in 1..4, list spine down
to the caret) together with `Sty okStyles s` (every style string anywhere in the collector has a
first word). Under `TInv` every operation of `DepthCollector` that the walk uses returns
(`∃ s', op s = .ok s'`) and re-establishes `TInv`.
-/
namespace D2P

structure TInv (s : DC) : Prop where
  inv2 : Inv2 s
  sty : Sty okStyles s

theorem inv2_of_same {s s' : DC} (h : Inv2 s) (hr : s'.root = s.root) (hd : s'.depth = s.depth) : Inv2 s' :=
  ⟨inv_of_same s s' h.inv hr hd, by rw [hr, hd]; exact h.spine⟩

/-! ## strings -/

theorem closeTags_ok : ∀ (l : List Str), okStyles l → ∃ t, closeTags l = .ok t
  | [], _ => ⟨[], rfl⟩
  | x :: xs, h => by
    obtain ⟨w, hw⟩ := h x (by simp)
    obtain ⟨t, ht⟩ := closeTags_ok xs (fun y hy => h y (List.mem_cons_of_mem _ hy))
    exact ⟨_, by simp only [closeTags, hw, ht, ok_bind]; rfl⟩

theorem htmlClose_ok (l : List Str) (h : okStyles l) : ∃ t, htmlClose l = .ok t := by
  unfold htmlClose
  exact closeTags_ok _ (fun y hy => h y (List.mem_reverse.1 hy))

theorem runStr_ok (r : Run) (h : okStyles r.style) : ∃ t, r.str = .ok t := by
  unfold Run.str
  split
  · exact ⟨[], rfl⟩
  · obtain ⟨c, hc⟩ := htmlClose_ok _ h
    exact ⟨_, by simp only [hc, ok_bind]; rfl⟩

theorem runStrs_ok : ∀ (rs : List Run), (∀ r ∈ rs, okStyles r.style) → ∃ ss, runStrs rs = .ok ss
  | [], _ => ⟨[], rfl⟩
  | r :: rs, h => by
    obtain ⟨t, ht⟩ := runStr_ok r (h r (by simp))
    obtain ⟨ss, hss⟩ := runStrs_ok rs (fun q hq => h q (List.mem_cons_of_mem _ hq))
    exact ⟨_, by simp only [runStrs, ht, hss, ok_bind]; rfl⟩

theorem parRunStrings_ok (p : Par) (h : p.sty okStyles) : ∃ ss, p.runStrings = .ok ss := by
  unfold Par.runStrings
  obtain ⟨rs, hrs⟩ := runStrs_ok p.runs h.2
  simp only [hrs, ok_bind]
  split
  · exact ⟨_, rfl⟩
  · obtain ⟨c, hc⟩ := htmlClose_ok _ h.1
    exact ⟨_, by simp only [hc, ok_bind]; rfl⟩

theorem countStrings_ok : ∀ (ps : List Par), (∀ p ∈ ps, p.sty okStyles) → ∃ n, countStrings ps = .ok n
  | [], _ => ⟨0, rfl⟩
  | p :: ps, h => by
    obtain ⟨rs, hrs⟩ := parRunStrings_ok p (h p (by simp))
    obtain ⟨n, hn⟩ := countStrings_ok ps (fun q hq => h q (List.mem_cons_of_mem _ hq))
    exact ⟨_, by simp only [countStrings, hrs, hn, ok_bind]; rfl⟩

theorem openParCount_ok : ∀ (ps : List Par), (∀ p ∈ ps, p.sty okStyles) → ∃ n, openParCount ps = .ok n
  | [], _ => ⟨0, rfl⟩
  | p :: ps, h => by
    obtain ⟨rs, hrs⟩ := parRunStrings_ok p (h p (by simp))
    obtain ⟨n, hn⟩ := openParCount_ok ps (fun q hq => h q (List.mem_cons_of_mem _ hq))
    exact ⟨_, by simp only [openParCount, hrs, hn, ok_bind]; rfl⟩

theorem countRuns_ok (s : DC) (h : Sty okStyles s) : ∃ n, s.countRuns = .ok n := by
  unfold DC.countRuns
  obtain ⟨a, ha⟩ := countStrings_ok _ h.tree
  obtain ⟨b, hb⟩ := openParCount_ok _ h.open_
  exact ⟨_, by simp only [ha, hb, ok_bind]; rfl⟩

theorem parsText_ok : ∀ (ps : List Par), (∀ p ∈ ps, p.sty okStyles) → ∃ t, rootsText.parsText ps = .ok t
  | [], _ => ⟨[], rfl⟩
  | p :: ps, h => by
    obtain ⟨rs, hrs⟩ := parRunStrings_ok p (h p (by simp))
    obtain ⟨t, ht⟩ := parsText_ok ps (fun q hq => h q (List.mem_cons_of_mem _ hq))
    exact ⟨_, by simp only [rootsText.parsText, hrs, ht, ok_bind]; rfl⟩

theorem rootsText_ok : ∀ (rs : List (List Nest)), (∀ r ∈ rs, ∀ p ∈ leafParsL r, p.sty okStyles) → ∃ t, rootsText rs = .ok t
  | [], _ => ⟨[], rfl⟩
  | r :: rs, h => by
    obtain ⟨a, ha⟩ := parsText_ok (leafParsL r) (h r (by simp))
    obtain ⟨b, hb⟩ := rootsText_ok rs (fun q hq => h q (List.mem_cons_of_mem _ hq))
    exact ⟨_, by simp only [rootsText, ha, hb, ok_bind]; rfl⟩

/-! ## caret and paragraphs -/

theorem setCaret_T (s : DC) (h : TInv s) (d : Option Nat) (hd : ∀ k, d = some k → 1 ≤ k ∧ k ≤ 4) (name : Option Str) :
    ∃ s', s.setCaret d name = .ok s' ∧ TInv s' ∧ (∀ k, d = some k → s'.depth = k) := by
  cases d with
  | none => exact ⟨s, rfl, h, by intro k hk; cases hk⟩
  | some k =>
    obtain ⟨s', hs', i2, hdep⟩ := C13_setCaret_total s h.inv2 k (hd k rfl).1 (hd k rfl).2 name
    exact ⟨s', hs', ⟨i2, sty_of_frame s s' (setCaret_frame s s' _ _ hs') h.sty⟩, by intro k' hk'; cases hk'; exact hdep⟩

theorem elemDepth_range (x : Xml) : ∀ k, elemDepth x = some k → 1 ≤ k ∧ k ≤ 4 := by
  intro k hk
  unfold elemDepth at hk
  split at hk
  · cases hk
  · cases hn : nearestPar x with
    | none => simp [hn] at hk
    | some j => simp [hn] at hk; omega

theorem commencePar_T (html : Bool) (s : DC) (h : TInv s) (e : Option Xml) (c : Bool)
    (hf : ∀ x, e = some x → (∃ hs, parFormatting html x = .ok hs) ∧ ∃ st, getPStyle x = .ok st) :
    ∃ s', s.commencePar html e c = .ok s' ∧ TInv s' ∧ s'.openPars ≠ [] := by
  obtain ⟨s1, h1, t1, d1⟩ := setCaret_T s h (some 4) (by intro k hk; cases hk; omega) (e.map Xml.localname)
  have hok : ∃ s', s.commencePar html e c = .ok s' ∧ s'.root = s1.root ∧ s'.depth = s1.depth ∧ s'.openPars ≠ [] := by
    unfold DC.commencePar
    cases e with
    | none =>
      simp only [Option.map_none] at h1
      refine ⟨{ s1 with queued := [], openPars := s1.openPars ++ [{ elem := none, htmlStyle := [], style := [], lineage := s1.lineage, runs := s1.queued }] }, ?_, rfl, rfl, by simp⟩
      simp only [Option.map_none, h1, ok_bind, pure, Except.pure]; rfl
    | some x =>
      obtain ⟨⟨hs, hhs⟩, ⟨st, hst⟩⟩ := hf x rfl
      simp only [Option.map_some] at h1
      refine ⟨{ s1 with queued := [], openPars := s1.openPars ++ [{ elem := x.id?, htmlStyle := hs, style := st, lineage := if (some x).isSome && c then tableLineage else s1.lineage, runs := s1.queued }] }, ?_, rfl, rfl, by simp⟩
      simp only [Option.map_some, h1, ok_bind, hhs, hst, pure, Except.pure]; rfl
  obtain ⟨s', hs', hr, hd, ho⟩ := hok
  exact ⟨s', hs', ⟨inv2_of_same t1.inv2 hr hd, commencePar_sty (okSpec html) s s' e c h.sty hs'⟩, ho⟩

theorem concludePar_T (s : DC) (h : TInv s) : ∃ s', s.concludePar = .ok s' ∧ TInv s' := by
  cases hp : s.openPars.getLast? with
  | none => exact ⟨s, by unfold DC.concludePar; simp [hp]; rfl, h⟩
  | some p =>
    have h0 : TInv ({ s with openPars := s.openPars.dropLast } : DC) :=
      ⟨inv2_of_same h.inv2 rfl rfl, ⟨h.sty.tree, fun q hq => h.sty.open_ q (List.dropLast_subset _ hq), h.sty.queued⟩⟩
    obtain ⟨s1, h1, t1, d1⟩ := setCaret_T _ h0 (some 4) (by intro k hk; cases hk; omega) none
    have hd4 : s1.depth = 4 := d1 4 rfl
    have hsp : Spine 3 s1.root := by have := t1.inv2.spine; rw [hd4] at this; exact this
    obtain ⟨r, hr⟩ := modAt_append_ok 3 s1.root (.par p) hsp
    have hok : s.concludePar = .ok { s1 with root := r } := by
      unfold DC.concludePar DC.appendAtCaret
      simp only [hp, h1, ok_bind, hd4, hr]; rfl
    refine ⟨_, hok, ⟨⟨?_, ?_⟩, concludePar_sty s _ h.sty hok⟩⟩
    · have : s1.appendAtCaret (.par p) = .ok { s1 with root := r } := by
        unfold DC.appendAtCaret; simp only [hd4, hr, ok_bind]; rfl
      exact append_par_inv s1 _ p t1.inv2.inv hd4 this
    · show Spine (s1.depth - 1) r
      rw [hd4]; exact (spine_after_append 3 s1.root r (.par p) hsp hr).1

theorem ensurePar_T (html : Bool) (s : DC) (h : TInv s) : ∃ s', s.ensurePar html = .ok s' ∧ TInv s' ∧ s'.openPars ≠ [] := by
  unfold DC.ensurePar
  by_cases he : s.openPars.isEmpty = true
  · simp only [he, if_true]
    exact commencePar_T html s h none false (by intro x hx; cases hx)
  · simp only [he, if_false]
    exact ⟨s, rfl, h, by intro e; simp [e] at he⟩

theorem modTop_T (s : DC) (h : TInv s) (f : Par → Par) (hf : ∀ p, p.sty okStyles → (f p).sty okStyles) : TInv (s.modTop f) := by
  refine ⟨inv2_of_same h.inv2 (modTop_same s f).1 (modTop_same s f).2, modTop_sty s f h.sty hf⟩

theorem modTop_openPars (s : DC) (f : Par → Par) (h : s.openPars ≠ []) : (s.modTop f).openPars ≠ [] := by
  unfold DC.modTop
  split
  · exact h
  · simp

theorem commenceRun_T (html : Bool) (s : DC) (h : TInv s) (e : Option Xml)
    (hf : ∀ x, e = some x → ∃ st, runFormatting html x = .ok st) :
    ∃ s', s.commenceRun html e = .ok s' ∧ TInv s' := by
  obtain ⟨s1, h1, t1, _⟩ := ensurePar_T html s h
  have hok : ∃ s', s.commenceRun html e = .ok s' ∧ s'.root = s1.root ∧ s'.depth = s1.depth := by
    unfold DC.commenceRun
    cases e with
    | none =>
      refine ⟨s1.modTop fun p => { p with runs := p.runs ++ [{ style := [] }] }, ?_, (modTop_same _ _).1, (modTop_same _ _).2⟩
      simp only [pure, Except.pure, ok_bind, h1]
    | some x =>
      obtain ⟨st, hst⟩ := hf x rfl
      refine ⟨s1.modTop fun p => { p with runs := p.runs ++ [{ style := st }] }, ?_, (modTop_same _ _).1, (modTop_same _ _).2⟩
      simp only [hst, pure, Except.pure, ok_bind, h1]
  obtain ⟨s', hs', hr, hd⟩ := hok
  exact ⟨s', hs', ⟨inv2_of_same t1.inv2 hr hd, commenceRun_sty (okSpec html) s s' e h.sty hs'⟩⟩

theorem ensureRun_T (html : Bool) (s : DC) (h : TInv s) : ∃ s', s.ensureRun html = .ok s' ∧ TInv s' := by
  obtain ⟨s1, h1, t1, _⟩ := ensurePar_T html s h
  have hok : s.ensureRun html = .ok (s1.modTop fun p => if p.runs.isEmpty then { p with runs := [{}] } else p) := by
    unfold DC.ensureRun; simp only [h1, ok_bind]; rfl
  exact ⟨_, hok, ⟨inv2_of_same t1.inv2 (modTop_same _ _).1 (modTop_same _ _).2, ensureRun_sty (okSpec html) s _ h.sty hok⟩⟩

theorem addCode_T (html : Bool) (s : DC) (h : TInv s) (t : Str) : ∃ s', s.addCode html t = .ok s' ∧ TInv s' := by
  obtain ⟨s1, h1, t1⟩ := ensureRun_T html s h
  have hok : s.addCode html t = .ok (s1.modTop fun p => appendToLastRun p t) := by
    unfold DC.addCode; simp only [h1, ok_bind]; rfl
  exact ⟨_, hok, ⟨inv2_of_same t1.inv2 (modTop_same _ _).1 (modTop_same _ _).2, addCode_sty (okSpec html) s _ t h.sty hok⟩⟩

theorem addText_T (html : Bool) (s : DC) (h : TInv s) (t : Str) : ∃ s', s.addText html t = .ok s' ∧ TInv s' :=
  addCode_T html s h _

theorem insertNewRun_T (html : Bool) (s : DC) (h : TInv s) (t : Str) : ∃ s', s.insertNewRun html t = .ok s' ∧ TInv s' := by
  obtain ⟨s1, h1, t1⟩ := ensureRun_T html s h
  have hok : s.insertNewRun html t = .ok (s1.modTop fun p => { p with runs := p.runs ++ [{ style := [], text := t }, { style := lastRunStyle p }] }) := by
    unfold DC.insertNewRun; simp only [h1, ok_bind]; rfl
  exact ⟨_, hok, ⟨inv2_of_same t1.inv2 (modTop_same _ _).1 (modTop_same _ _).2, insertNewRun_sty (okSpec html) s _ t h.sty hok⟩⟩

theorem insertOpt_T (html : Bool) (s : DC) (h : TInv s) (t : Option Str) : ∃ s', insertOpt html s t = .ok s' ∧ TInv s' := by
  unfold insertOpt
  cases t with
  | none => exact ⟨s, rfl, h⟩
  | some t => exact insertNewRun_T html s h t

theorem startRange_T (s : DC) (h : TInv s) (id : Str) : ∃ s', s.startRange id = .ok s' ∧ TInv s' := by
  obtain ⟨n, hn⟩ := countRuns_ok s h.sty
  exact ⟨{ s with ranges := s.ranges.set id (n, n) }, by unfold DC.startRange; simp only [hn, ok_bind]; rfl,
    ⟨inv2_of_same h.inv2 rfl rfl, ⟨h.sty.tree, h.sty.open_, h.sty.queued⟩⟩⟩

theorem endRange_T (s : DC) (h : TInv s) (id : Str) : ∃ s', s.endRange id = .ok s' ∧ TInv s' := by
  obtain ⟨n, hn⟩ := countRuns_ok s h.sty
  exact ⟨{ s with ranges := s.ranges.set id (((s.ranges.get? id).getD (n, n)).1, n) }, by unfold DC.endRange; simp only [hn, ok_bind]; rfl,
    ⟨inv2_of_same h.inv2 rfl rfl, ⟨h.sty.tree, h.sty.open_, h.sty.queued⟩⟩⟩

theorem queueRun_T (s : DC) (h : TInv s) (t : Str) : TInv (s.queueRun t) := by
  refine ⟨inv2_of_same h.inv2 rfl rfl, ⟨h.sty.tree, h.sty.open_, ?_⟩⟩
  intro r hr
  unfold DC.queueRun at hr
  rcases List.mem_append.1 hr with hr | hr
  · exact h.sty.queued r hr
  · simp at hr; subst hr; intro st hst; simp at hst

theorem init_T (b : Bullets) : TInv ({ bullets := b } : DC) :=
  ⟨⟨init_inv b, trivial⟩, ⟨by intro p hp; simp [leafParsL] at hp, by simp, by simp⟩⟩

end D2P
