import D2P.Props.C06Many
/-!
# One level of `merge_elems`, in general

`mergeLevel` groups the content-bearing children by adjacent equal keys and folds `applyGroup`
over the groups. This file describes the result for an arbitrary children list whose element
identities are distinct:

* `runs_groupAdj` / `groupAdj_of_runs`: `groupAdj` is THE decomposition into maximal runs of one key;
* `fold_groups`: after the fold the content-bearing children are, group by group, the merged first
  element (for a group that merges) or the untouched group;
* `elemKey_merged`: the merged element has the key of its group;
* `mergeLevel_idem`: merging the result again changes nothing.
-/
namespace D2P

/-! ## keys as a total function -/

def keyOf (cfg : PartCfg) (x : Xml) : ElemKey :=
  match elemKey cfg x with
  | .ok k => k
  | .error _ => ⟨⟨none, []⟩, [], []⟩

def tagK (κ : Xml → ElemKey) (xs : List Xml) : List (ElemKey × Xml) := xs.map fun x => (κ x, x)

theorem keyed_ok (cfg : PartCfg) : ∀ (xs : List Xml) (kc : List (ElemKey × Xml)), keyed cfg xs = .ok kc →
    kc = tagK (keyOf cfg) xs ∧ ∀ x ∈ xs, elemKey cfg x = .ok (keyOf cfg x) := by
  intro xs
  induction xs with
  | nil => intro kc h; simp only [keyed] at h; have := pure_ok h; subst this; exact ⟨rfl, by simp⟩
  | cons x xs ih =>
    intro kc h
    simp only [keyed] at h
    obtain ⟨k, hk, h⟩ := bind_ok h
    obtain ⟨r, hr, h⟩ := bind_ok h
    have := pure_ok h; subst this
    obtain ⟨e, hall⟩ := ih r hr
    have hkx : keyOf cfg x = k := by simp [keyOf, hk]
    refine ⟨by simp [tagK, hkx, e], ?_⟩
    intro y hy
    rcases List.mem_cons.1 hy with rfl | hy
    · rw [hkx]; exact hk
    · exact hall y hy

theorem keyed_of_ok (cfg : PartCfg) : ∀ (xs : List Xml), (∀ x ∈ xs, ∃ k, elemKey cfg x = .ok k) →
    keyed cfg xs = .ok (tagK (keyOf cfg) xs) := by
  intro xs
  induction xs with
  | nil => intro _; rfl
  | cons x xs ih =>
    intro h
    obtain ⟨k, hk⟩ := h x (by simp)
    have hkx : keyOf cfg x = k := by simp [keyOf, hk]
    simp only [keyed, hk, ok_bind, ih (fun y hy => h y (by simp [hy])), tagK, List.map_cons, hkx]
    rfl

/-! ## `groupAdj` is the decomposition into maximal runs -/

/-- nonempty groups, one key per group, neighbouring groups differ in key -/
inductive Runs (κ : Xml → ElemKey) : List (List Xml) → Prop
  | nil : Runs κ []
  | one (a : Xml) (g : List Xml) : (∀ x ∈ g, κ x = κ a) → Runs κ [a :: g]
  | cons (a : Xml) (g : List Xml) (b : Xml) (h : List Xml) (gs : List (List Xml)) :
      (∀ x ∈ g, κ x = κ a) → κ a ≠ κ b → Runs κ ((b :: h) :: gs) → Runs κ ((a :: g) :: (b :: h) :: gs)

theorem groupAdj_ne_nil (x : ElemKey × Xml) (xs : List (ElemKey × Xml)) : groupAdj (x :: xs) ≠ [] := by
  obtain ⟨k, a⟩ := x
  unfold groupAdj
  split
  · split <;> simp
  · simp

theorem groupAdj_single (k : ElemKey) (a : Xml) : groupAdj [(k, a)] = [[a]] := by
  simp [groupAdj]

theorem runs_groupAdj (κ : Xml → ElemKey) : ∀ (rest : List Xml) (b : Xml),
    ∃ h gs, groupAdj (tagK κ (b :: rest)) = (b :: h) :: gs ∧ Runs κ ((b :: h) :: gs) ∧ (b :: h) ++ gs.flatten = b :: rest := by
  intro rest
  induction rest with
  | nil => intro b; exact ⟨[], [], by simp [tagK, groupAdj], Runs.one b [] (by simp), by simp⟩
  | cons c rest ih =>
    intro b
    obtain ⟨h, gs, hg, hr, hf⟩ := ih c
    have e : tagK κ (b :: c :: rest) = (κ b, b) :: (κ c, c) :: tagK κ rest := rfl
    have e' : tagK κ (c :: rest) = (κ c, c) :: tagK κ rest := rfl
    rw [e, groupAdj_step, ← e', hg]
    by_cases hk : κ b = κ c
    · refine ⟨c :: h, gs, by simp [hk], ?_, by simpa using hf⟩
      cases hr with
      | one _ _ hom =>
        exact Runs.one b (c :: h) (by intro x hx; rcases List.mem_cons.1 hx with rfl | hx; exact hk.symm; rw [hom x hx, hk])
      | cons _ _ d h2 gs' hom hne R =>
        exact Runs.cons b (c :: h) d h2 gs' (by intro x hx; rcases List.mem_cons.1 hx with rfl | hx; exact hk.symm; rw [hom x hx, hk])
          (by rw [hk]; exact hne) R
    · refine ⟨[], (c :: h) :: gs, by simp [hk], Runs.cons b [] c h gs (by simp) hk hr, ?_⟩
      simp only [List.flatten_cons, List.cons_append, List.nil_append]
      rw [← List.cons_append, hf]

theorem groupAdj_run_then (κ : Xml → ElemKey) (b : Xml) (rest : List Xml) : ∀ (g : List Xml) (a : Xml),
    (∀ x ∈ g, κ x = κ a) → κ a ≠ κ b →
    groupAdj (tagK κ (a :: g ++ b :: rest)) = (a :: g) :: groupAdj (tagK κ (b :: rest)) := by
  intro g
  induction g with
  | nil =>
    intro a _ hne
    have e : tagK κ (a :: [] ++ b :: rest) = (κ a, a) :: (κ b, b) :: tagK κ rest := rfl
    have e' : tagK κ (b :: rest) = (κ b, b) :: tagK κ rest := rfl
    rw [e, groupAdj_step, e']
    cases hG : groupAdj ((κ b, b) :: tagK κ rest) with
    | nil => exact absurd hG (groupAdj_ne_nil _ _)
    | cons G0 GS => simp [hne]
  | cons c g ih =>
    intro a hom hne
    have hc : κ c = κ a := hom c (by simp)
    have ih' := ih c (fun x hx => by rw [hom x (by simp [hx]), hc]) (by rw [hc]; exact hne)
    have e : tagK κ (a :: (c :: g) ++ b :: rest) = (κ a, a) :: (κ c, c) :: tagK κ (g ++ b :: rest) := by
      simp [tagK]
    have e' : tagK κ (c :: g ++ b :: rest) = (κ c, c) :: tagK κ (g ++ b :: rest) := by simp [tagK]
    rw [e, groupAdj_step, ← e', ih']
    simp [hc]

theorem groupAdj_of_runs (κ : Xml → ElemKey) (gs : List (List Xml)) (h : Runs κ gs) :
    groupAdj (tagK κ gs.flatten) = gs := by
  induction h with
  | nil => rfl
  | one a g hom =>
    have : tagK κ [a :: g].flatten = (a :: g).map fun y => (κ a, y) := by
      simp only [List.flatten_cons, List.flatten_nil, List.append_nil, tagK]
      apply List.map_congr_left
      intro x hx
      rcases List.mem_cons.1 hx with rfl | hx
      · rfl
      · rw [hom x hx]
    rw [this, groupAdj_const]
  | cons a g b h gs hom hne _ ih =>
    have e : ((a :: g) :: (b :: h) :: gs).flatten = a :: g ++ b :: (h ++ gs.flatten) := by simp
    have e' : ((b :: h) :: gs).flatten = b :: (h ++ gs.flatten) := by simp
    rw [e, groupAdj_run_then κ b _ g a hom hne, ← e', ih]

/-! ## one fold step -/

def merges : List Xml → Bool
  | first :: rest => !rest.isEmpty && isMergeable first
  | [] => false

def newTextOf : List Xml → Option Str
  | first :: rest => if isTextLike first then some (sjoin ((first :: rest).map fun e => (e.text?).getD [])) else first.text?
  | [] => none

def movedOf : List Xml → List Xml
  | _ :: rest => rest.flatMap Xml.kids
  | [] => []

def psi (g : List Xml) (k : Xml) : Option Xml :=
  match g with
  | first :: rest =>
    (match k.id? with
      | some i =>
        if (rest.filterMap Xml.id?).contains i then none
        else if some i == first.id? then some (setTextKids k (newTextOf g) (k.kids ++ movedOf g))
        else some k
      | none => some k)
  | [] => some k

def mergedOf : List Xml → Xml
  | first :: rest => setTextKids first (newTextOf (first :: rest)) (first.kids ++ movedOf (first :: rest))
  | [] => default

def repL (g : List Xml) : List Xml := if merges g then [mergedOf g] else g

theorem applyGroup_eq (kids g : List Xml) :
    applyGroup kids g = if merges g then kids.filterMap (psi g) else kids := by
  cases g with
  | nil => simp [applyGroup, merges]
  | cons first rest =>
    cases hr : rest.isEmpty <;> cases hm : isMergeable first
    all_goals simp only [applyGroup, merges, hr, hm, Bool.not_true, Bool.not_false, Bool.or_true, Bool.or_false,
      Bool.true_or, Bool.false_or, Bool.and_true, Bool.and_false, Bool.true_and, Bool.false_and, if_true, if_false,
      Bool.false_eq_true]
    rfl

theorem setTextKids_id (k : Xml) (t : Option Str) (ks : List Xml) : (setTextKids k t ks).id? = k.id? := by
  cases k <;> rfl

theorem psi_id (g : List Xml) (k k' : Xml) (h : psi g k = some k') : k'.id? = k.id? := by
  cases g with
  | nil => simp only [psi, Option.some.injEq] at h; subst h; rfl
  | cons first rest =>
    simp only [psi] at h
    split at h
    · split at h
      · cases h
      · split at h
        · cases h; exact setTextKids_id _ _ _
        · cases h; rfl
    · cases h; rfl

theorem filterMap_self {α : Type} (f : α → Option α) : ∀ (l : List α), (∀ a ∈ l, f a = some a) → l.filterMap f = l
  | [], _ => rfl
  | a :: l, h => by
    rw [List.filterMap_cons, h a (by simp)]
    simp only
    rw [filterMap_self f l (fun b hb => h b (by simp [hb]))]

/-- identities determine the element in a list whose identities are distinct -/
theorem id_inj {α β : Type} (f : α → Option β) : ∀ (l : List α), (l.filterMap f).Nodup → ∀ x ∈ l, ∀ y ∈ l, ∀ i, f x = some i → f y = some i → x = y := by
  intro l
  induction l with
  | nil => intro _ x hx; simp at hx
  | cons z l ih =>
    intro hn x hx y hy i hxi hyi
    have hmem : ∀ w ∈ l, f w = some i → i ∈ l.filterMap f := fun w hw hwi => List.mem_filterMap.2 ⟨w, hw, hwi⟩
    have hn' : (l.filterMap f).Nodup := by
      rw [List.filterMap_cons] at hn
      split at hn
      · exact hn
      · exact (List.nodup_cons.1 hn).2
    rcases List.mem_cons.1 hx with ex | hx' <;> rcases List.mem_cons.1 hy with ey | hy'
    · rw [ex, ey]
    · rw [ex] at hxi
      rw [List.filterMap_cons, hxi] at hn
      exact absurd (hmem y hy' hyi) (List.nodup_cons.1 hn).1
    · rw [ey] at hyi
      rw [List.filterMap_cons, hyi] at hn
      exact absurd (hmem x hx' hxi) (List.nodup_cons.1 hn).1
    · exact ih hn' x hx' y hy' i hxi hyi

theorem hasContent_isElem (x : Xml) (h : hasContent x = true) : x.isElem = true := by
  cases x <;> simp_all [hasContent, Xml.isElem]

theorem isElem_id (x : Xml) (h : x.isElem = true) : ∃ i, x.id? = some i := by
  cases x <;> simp_all [Xml.isElem, Xml.id?]

/-- a content-bearing element that receives more children keeps its content -/
theorem hasContent_more (k : Xml) (t : Option Str) (more : List Xml) (h : hasContent k = true) :
    hasContent (setTextKids k t (k.kids ++ more)) = true := by
  cases k with
  | elem i p tg m a tx tl ks =>
    have hp : (Xml.elem i p tg m a t tl (ks ++ more)).ptag = (Xml.elem i p tg m a tx tl ks).ptag := by cases p <;> rfl
    simp only [hasContent, Bool.or_eq_true] at h
    simp only [setTextKids, Xml.kids, hasContent, isContentTag, hp, hasContentL_append, Bool.or_eq_true]
    rcases h with h | h
    · exact Or.inl (by simpa [isContentTag] using h)
    · exact Or.inr (Or.inl h)
  | comment _ _ => simp [hasContent] at h
  | pi _ => simp [hasContent] at h

/-- what `psi` does to the content-bearing children, given where the group sits among them -/
theorem psi_on_content (first : Xml) (rest A B : List Xml)
    (hn : ((A ++ first :: rest ++ B).filterMap Xml.id?).Nodup)
    (he : ∀ x ∈ first :: rest, x.isElem = true) :
    (A ++ first :: rest ++ B).filterMap (psi (first :: rest)) = A ++ [mergedOf (first :: rest)] ++ B := by
  obtain ⟨i0, hi0⟩ := isElem_id first (he first (by simp))
  -- identities: A, first, rest, B pairwise apart
  have hrest : ∀ r ∈ rest, ∃ j, r.id? = some j ∧ j ∈ rest.filterMap Xml.id? := by
    intro r hr
    obtain ⟨j, hj⟩ := isElem_id r (he r (by simp [hr]))
    exact ⟨j, hj, List.mem_filterMap.2 ⟨r, hr, hj⟩⟩
  simp only [List.filterMap_append, List.filterMap_cons, hi0] at hn
  have hn1 := List.nodup_append.1 hn
  have hn2 := List.nodup_append.1 hn1.1
  have hn3 := List.nodup_cons.1 hn2.2.1
  have outside : ∀ x, (∀ i, x.id? = some i → i ≠ i0 ∧ i ∉ rest.filterMap Xml.id?) → psi (first :: rest) x = some x := by
    intro x hx
    simp only [psi]
    cases hxi : x.id? with
    | none => rfl
    | some i =>
      obtain ⟨h1, h2⟩ := hx i hxi
      have c1 : (rest.filterMap Xml.id?).contains i = false := by
        rw [List.contains_eq_mem, decide_eq_false_iff_not]; exact h2
      have c2 : (some i == first.id?) = false := by
        rw [hi0]; simp only [beq_eq_false_iff_ne, ne_eq, Option.some.injEq]; exact h1
      simp only [c1, c2, Bool.false_eq_true, if_false]
  have hA : A.filterMap (psi (first :: rest)) = A := by
    apply filterMap_self
    intro a ha
    apply outside
    intro i hai
    have hia : i ∈ A.filterMap Xml.id? := List.mem_filterMap.2 ⟨a, ha, hai⟩
    constructor
    · intro e; subst e
      exact hn2.2.2 i hia i (by simp) rfl
    · intro hir
      exact hn2.2.2 i hia i (by simp [hir]) rfl
  have hB : B.filterMap (psi (first :: rest)) = B := by
    apply filterMap_self
    intro b hb
    apply outside
    intro i hbi
    have hib : i ∈ B.filterMap Xml.id? := List.mem_filterMap.2 ⟨b, hb, hbi⟩
    constructor
    · intro e; subst e
      exact hn1.2.2 i (by simp) i hib rfl
    · intro hir
      exact hn1.2.2 i (by simp [hir]) i hib rfl
  have hF : psi (first :: rest) first = some (mergedOf (first :: rest)) := by
    simp only [psi, hi0]
    have c1 : (rest.filterMap Xml.id?).contains i0 = false := by
      rw [List.contains_eq_mem, decide_eq_false_iff_not]; exact hn3.1
    simp only [c1, Bool.false_eq_true, if_false, beq_self_eq_true, if_true, mergedOf]
  have hR : rest.filterMap (psi (first :: rest)) = [] := by
    rw [List.filterMap_eq_nil_iff]
    intro r hr
    obtain ⟨j, hj, hjm⟩ := hrest r hr
    simp only [psi, hj]
    have c1 : (rest.filterMap Xml.id?).contains j = true := by
      rw [List.contains_eq_mem, decide_eq_true_eq]; exact hjm
    simp only [c1, if_true]
  simp only [List.filterMap_append, List.filterMap_cons, hA, hB, hF, hR]

/-! ## the fold over the groups -/

theorem setTextKids_tag (k : Xml) (t : Option Str) (ks : List Xml) : (setTextKids k t ks).tag? = k.tag? := by
  cases k <;> rfl

theorem psi_tag (g : List Xml) (k k' : Xml) (h : psi g k = some k') : k'.tag? = k.tag? := by
  cases g with
  | nil => simp only [psi, Option.some.injEq] at h; subst h; rfl
  | cons first rest =>
    simp only [psi] at h
    split at h
    · split at h
      · cases h
      · split at h
        · cases h; exact setTextKids_tag _ _ _
        · cases h; rfl
    · cases h; rfl

theorem psi_content (g : List Xml) (k k' : Xml) (hc : hasContent k = true) (h : psi g k = some k') : hasContent k' = true := by
  cases g with
  | nil => simp only [psi, Option.some.injEq] at h; subst h; exact hc
  | cons first rest =>
    simp only [psi] at h
    split at h
    · split at h
      · cases h
      · split at h
        · cases h; exact hasContent_more _ _ _ hc
        · cases h; exact hc
    · cases h; exact hc

theorem psi_filter (g : List Xml) : ∀ (L : List Xml), (∀ x ∈ L, hasContent x = false → psi g x = some x) →
    (L.filterMap (psi g)).filter hasContent = (L.filter hasContent).filterMap (psi g) := by
  intro L
  induction L with
  | nil => intro _; rfl
  | cons x L ih =>
    intro h0
    have ih' := ih (fun y hy => h0 y (by simp [hy]))
    cases hc : hasContent x with
    | false =>
      rw [List.filterMap_cons, h0 x (by simp) hc]
      simp only [List.filter_cons, hc, Bool.false_eq_true, if_false]
      exact ih'
    | true =>
      rw [List.filter_cons]
      simp only [hc, if_true, List.filterMap_cons]
      cases hp : psi g x with
      | none => simpa using ih'
      | some x' =>
        have := psi_content g x x' hc hp
        simp only [List.filter_cons, this, if_true, ih']

theorem psi_noncontent (g L : List Xml) (hn : (L.filterMap Xml.id?).Nodup) (hg : ∀ y ∈ g, y ∈ L ∧ hasContent y = true) :
    ∀ x ∈ L, hasContent x = false → psi g x = some x := by
  intro x hx hc
  cases g with
  | nil => rfl
  | cons first rest =>
    simp only [psi]
    cases hxi : x.id? with
    | none => rfl
    | some i =>
      have c1 : (rest.filterMap Xml.id?).contains i = false := by
        rw [List.contains_eq_mem, decide_eq_false_iff_not]
        intro hm
        obtain ⟨r, hr, hri⟩ := List.mem_filterMap.1 hm
        have := id_inj Xml.id? L hn x hx r (hg r (by simp [hr])).1 i hxi hri
        rw [this, (hg r (by simp [hr])).2] at hc; cases hc
      have c2 : (some i == first.id?) = false := by
        cases hfi : first.id? with
        | none => rfl
        | some j =>
          simp only [beq_eq_false_iff_ne, ne_eq, Option.some.injEq]
          intro e; subst e
          have := id_inj Xml.id? L hn x hx first (hg first (by simp)).1 i hxi hfi
          rw [this, (hg first (by simp)).2] at hc; cases hc
      simp only [c1, c2, Bool.false_eq_true, if_false]

/-- an element that is not a member of the group is left alone -/
theorem psi_outside (g L : List Xml) (hn : (L.filterMap Xml.id?).Nodup) (hg : ∀ y ∈ g, y ∈ L) :
    ∀ x ∈ L, x ∉ g → psi g x = some x := by
  intro x hx hxg
  cases g with
  | nil => rfl
  | cons first rest =>
    simp only [psi]
    cases hxi : x.id? with
    | none => rfl
    | some i =>
      have c1 : (rest.filterMap Xml.id?).contains i = false := by
        rw [List.contains_eq_mem, decide_eq_false_iff_not]
        intro hm
        obtain ⟨r, hr, hri⟩ := List.mem_filterMap.1 hm
        have := id_inj Xml.id? L hn x hx r (hg r (by simp [hr])) i hxi hri
        exact hxg (by rw [this]; simp [hr])
      have c2 : (some i == first.id?) = false := by
        cases hfi : first.id? with
        | none => rfl
        | some j =>
          simp only [beq_eq_false_iff_ne, ne_eq, Option.some.injEq]
          intro e; subst e
          have := id_inj Xml.id? L hn x hx first (hg first (by simp)) i hxi hfi
          exact hxg (by rw [this]; simp)
      simp only [c1, c2, Bool.false_eq_true, if_false]

theorem filterMap_ids_sublist {β : Type} (ψ : Xml → Option Xml) (f : Xml → Option β) (hψ : ∀ x x', ψ x = some x' → f x' = f x) :
    ∀ (L : List Xml), ((L.filterMap ψ).filterMap f).Sublist (L.filterMap f) := by
  intro L
  induction L with
  | nil => exact List.Sublist.refl _
  | cons x L ih =>
    rw [List.filterMap_cons]
    cases hp : ψ x with
    | none =>
      simp only
      rw [List.filterMap_cons]
      split
      · exact ih
      · exact List.Sublist.cons _ ih
    | some x' =>
      simp only
      rw [List.filterMap_cons, List.filterMap_cons, hψ x x' hp]
      split
      · exact ih
      · exact List.Sublist.cons_cons _ ih

theorem filter_filterMap (P : Xml → Bool) (ψ : Xml → Option Xml) : ∀ (L : List Xml),
    (∀ x ∈ L, P x = true → ψ x = some x) → (∀ x ∈ L, P x = false → ∀ x', ψ x = some x' → P x' = false) →
    (L.filterMap ψ).filter P = L.filter P := by
  intro L
  induction L with
  | nil => intro _ _; rfl
  | cons x L ih =>
    intro h1 h2
    have ih' := ih (fun y hy => h1 y (by simp [hy])) (fun y hy => h2 y (by simp [hy]))
    cases hP : P x with
    | true =>
      rw [List.filterMap_cons, h1 x (by simp) hP]
      simp only [List.filter_cons, hP, if_true, ih']
    | false =>
      rw [List.filterMap_cons]
      cases hp : ψ x with
      | none => simp only [List.filter_cons, hP, Bool.false_eq_true, if_false]; exact ih'
      | some x' =>
        have := h2 x (by simp) hP x' hp
        simp only [List.filter_cons, hP, this, Bool.false_eq_true, if_false]; exact ih'

/-- predicates that only look at the tag -/
def TagOnly (P : Xml → Bool) : Prop := ∀ x y : Xml, x.tag? = y.tag? → P x = P y

theorem mergedOf_tag (first : Xml) (rest : List Xml) : (mergedOf (first :: rest)).tag? = first.tag? :=
  setTextKids_tag _ _ _

/-- one group applied to the children list -/
theorem applyGroup_step (L pre post : List Xml) (first : Xml) (rest : List Xml)
    (hn : (L.filterMap Xml.id?).Nodup) (hf : L.filter hasContent = pre ++ first :: rest ++ post) :
    (applyGroup L (first :: rest)).filter hasContent = pre ++ repL (first :: rest) ++ post ∧
    ((applyGroup L (first :: rest)).filterMap Xml.id?).Nodup ∧
    (∀ k ∈ applyGroup L (first :: rest), k ∈ L ∨ (merges (first :: rest) = true ∧ k = mergedOf (first :: rest))) ∧
    (∀ P : Xml → Bool, TagOnly P → (∀ x ∈ L, P x = true → merges (first :: rest) = true → x ∉ first :: rest) →
      (applyGroup L (first :: rest)).filter P = L.filter P) := by
  rw [applyGroup_eq]
  have hg : ∀ y ∈ first :: rest, y ∈ L ∧ hasContent y = true := by
    intro y hy
    have : y ∈ L.filter hasContent := by rw [hf]; simp only [List.mem_append]; exact Or.inl (Or.inr hy)
    exact List.mem_filter.1 this
  cases hm : merges (first :: rest) with
  | false =>
    simp only [Bool.false_eq_true, if_false, repL, hm]
    exact ⟨hf, hn, fun k hk => Or.inl hk, fun _ _ _ => by first | trivial | rfl⟩
  | true =>
    simp only [if_true, repL, hm]
    have h0 := psi_noncontent (first :: rest) L hn hg
    refine ⟨?_, ?_, ?_, ?_⟩
    · rw [psi_filter _ L h0, hf]
      apply psi_on_content first rest pre post
      · rw [← hf]
        exact List.Nodup.sublist (List.Sublist.filterMap _ List.filter_sublist) hn
      · intro x hx; exact hasContent_isElem x (hg x hx).2
    · exact List.Nodup.sublist (filterMap_ids_sublist _ _ (fun x x' h => psi_id _ x x' h) L) hn
    · intro k hk
      obtain ⟨k0, hk0, hp⟩ := List.mem_filterMap.1 hk
      -- either unchanged, or the element that carries the first's identity, which is the first
      simp only [psi] at hp
      split at hp
      · rename_i i hi
        split at hp
        · cases hp
        · split at hp
          · rename_i heq
            have hfi : first.id? = some i := by
              have := beq_iff_eq.1 heq; exact this.symm
            have : k0 = first := id_inj Xml.id? L hn k0 hk0 first (hg first (by simp)).1 i hi hfi
            subst this
            cases hp
            exact Or.inr ⟨by first | trivial | rfl | exact hm, rfl⟩
          · cases hp; exact Or.inl hk0
      · cases hp; exact Or.inl hk0
    · intro P hP hPc
      apply filter_filterMap
      · intro x hx hPx; exact psi_outside (first :: rest) L hn (fun y hy => (hg y hy).1) x hx (hPc x hx hPx (by first | trivial | rfl | exact hm))
      · intro x _ hPx x' hp
        rw [hP x' x (psi_tag _ x x' hp)]; exact hPx

/-- **the fold**: group by group, a merging group is replaced by its merged first element -/
theorem fold_groups : ∀ (R : List (List Xml)) (L pre : List Xml),
    (L.filterMap Xml.id?).Nodup → L.filter hasContent = pre ++ R.flatten → (∀ g ∈ R, g ≠ []) →
    (R.foldl applyGroup L).filter hasContent = pre ++ (R.map repL).flatten ∧
    ((R.foldl applyGroup L).filterMap Xml.id?).Nodup ∧
    (∀ k ∈ R.foldl applyGroup L, k ∈ L ∨ ∃ g ∈ R, merges g = true ∧ k = mergedOf g) ∧
    (∀ P : Xml → Bool, TagOnly P → (∀ x ∈ L, P x = true → ∀ g ∈ R, merges g = true → x ∉ g) →
      (R.foldl applyGroup L).filter P = L.filter P) := by
  intro R
  induction R with
  | nil => intro L pre hn hf _; exact ⟨by simpa using hf, hn, fun k hk => Or.inl hk, fun _ _ _ => rfl⟩
  | cons g R ih =>
    intro L pre hn hf hne
    cases g with
    | nil => exact absurd rfl (hne [] (by simp))
    | cons first rest =>
      have hf' : L.filter hasContent = pre ++ first :: rest ++ R.flatten := by
        rw [hf]; simp
      obtain ⟨s1, s2, s3, s4⟩ := applyGroup_step L pre R.flatten first rest hn hf'
      obtain ⟨r1, r2, r3, r4⟩ := ih (applyGroup L (first :: rest)) (pre ++ repL (first :: rest)) s2 s1
        (fun g hg => hne g (by simp [hg]))
      refine ⟨?_, r2, ?_, ?_⟩
      · simp only [List.foldl_cons, r1, List.map_cons, List.flatten_cons, List.append_assoc]
      · intro k hk
        rcases r3 k hk with h | ⟨g, hg, hm, e⟩
        · rcases s3 k h with h | ⟨hm, e⟩
          · exact Or.inl h
          · exact Or.inr ⟨first :: rest, by simp, hm, e⟩
        · exact Or.inr ⟨g, by simp [hg], hm, e⟩
      · intro P hP hPc
        simp only [List.foldl_cons]
        rw [r4 P hP, s4 P hP (fun x hx hPx hm => hPc x hx hPx (first :: rest) (by simp) hm)]
        intro x hx hPx g hg hmg
        rcases s3 x hx with h | ⟨hm1, e⟩
        · exact hPc x h hPx g (by simp [hg]) hmg
        · -- the merged element carries the first's tag, and the first is a member of its (merging) group
          have hfL : first ∈ L := by
            have : first ∈ L.filter hasContent := by rw [hf']; simp
            exact (List.mem_filter.1 this).1
          have : P first = true := by rw [← hP x first (by rw [e]; exact mergedOf_tag first rest)]; exact hPx
          exact absurd (List.mem_cons_self ..) (hPc first hfL this (first :: rest) (by simp) hm1)

/-! ## the key of a merged element -/

/-- `elemKey` with the formatting it may consult passed in -/
def elemKeyWith (cfg : PartCfg) (x : Xml) (F : M (List Str)) : M ElemKey :=
  let tag := x.tag?.getD ⟨none, []⟩
  if !isMergeable x then pure ⟨tag, [], []⟩ else
  let relsId : Option Str := (nsGet x (lit "r")).bind fun u => x.attrGet ⟨some u, lit "id"⟩
  match relsId with
  | some rid =>
    if rid.isEmpty then F >>= fun f => pure ⟨tag, [], f⟩ else
    (match cfg.rels.get? rid with
      | none => pure ⟨tag, lit "unresolved:" ++ rid, []⟩
      | some target =>
        let anchor := ((nsGet x (lit "w")).bind fun u => x.attrGet ⟨some u, lit "anchor"⟩).getD []
        pure ⟨tag, target, [anchor]⟩)
  | none => F >>= fun f => pure ⟨tag, [], f⟩

theorem elemKey_with (cfg : PartCfg) (x : Xml) : elemKey cfg x = elemKeyWith cfg x (htmlFormatting cfg.html x) := rfl

theorem elemKeyWith_shell (cfg : PartCfg) (i : Nat) (p : Option Str) (t : QName) (m : NsMap) (a : List (QName × Str))
    (tx tx' tl : Option Str) (ks ks' : List Xml) (F : M (List Str)) :
    elemKeyWith cfg (.elem i p t m a tx tl ks) F = elemKeyWith cfg (.elem i p t m a tx' tl ks') F := by
  cases p <;> rfl

/-- does `elemKey` consult the formatting? -/
def fmtBranch (x : Xml) : Bool :=
  isMergeable x &&
  match (nsGet x (lit "r")).bind fun u => x.attrGet ⟨some u, lit "id"⟩ with
  | some rid => rid.isEmpty
  | none => true

theorem elemKeyWith_fmt (cfg : PartCfg) (x : Xml) (F : M (List Str)) (h : fmtBranch x = true) :
    elemKeyWith cfg x F = F >>= fun f => pure ⟨x.tag?.getD ⟨none, []⟩, [], f⟩ := by
  unfold fmtBranch at h
  simp only [Bool.and_eq_true] at h
  unfold elemKeyWith
  simp only [h.1, Bool.not_true, Bool.false_eq_true, if_false]
  have h2 := h.2
  split at h2
  · rename_i rid hr; simp only [hr, h2, if_true]
  · rename_i hr; simp only [hr]

theorem elemKeyWith_nofmt (cfg : PartCfg) (x : Xml) (F F' : M (List Str)) (h : fmtBranch x = false) :
    elemKeyWith cfg x F = elemKeyWith cfg x F' := by
  unfold fmtBranch at h
  unfold elemKeyWith
  cases hm : isMergeable x with
  | false => simp
  | true =>
    simp only [hm, Bool.true_and] at h
    simp only [Bool.not_true, Bool.false_eq_true, if_false]
    split at h
    · rename_i rid hr; simp only [hr, h, Bool.false_eq_true, if_false]
    · cases h

/-- a key made without consulting the formatting, for a mergeable element, names a target or an anchor -/
theorem elemKeyWith_nofmt_shape (cfg : PartCfg) (x : Xml) (F : M (List Str)) (k : ElemKey)
    (h : fmtBranch x = false) (hm : isMergeable x = true) (hk : elemKeyWith cfg x F = .ok k) :
    k.target ≠ [] ∨ k.fmt.length = 1 := by
  unfold fmtBranch at h
  simp only [hm, Bool.true_and] at h
  unfold elemKeyWith at hk
  simp only [hm, Bool.not_true, Bool.false_eq_true, if_false] at hk
  split at h
  · rename_i rid hr
    simp only [hr, h, Bool.false_eq_true, if_false] at hk
    split at hk
    · have := pure_ok hk; subst this; left; simp [lit]
    · have := pure_ok hk; subst this; right; rfl
  · cases h

theorem elemKeyWith_tag (cfg : PartCfg) (x : Xml) (F : M (List Str)) (k : ElemKey) (hk : elemKeyWith cfg x F = .ok k) :
    k.tag = x.tag?.getD ⟨none, []⟩ := by
  unfold elemKeyWith at hk
  cases hm : isMergeable x with
  | false => simp only [hm, Bool.not_false, if_true] at hk; have := pure_ok hk; subst this; rfl
  | true =>
    simp only [hm, Bool.not_true, Bool.false_eq_true, if_false] at hk
    split at hk
    · split at hk
      · obtain ⟨f, _, hk⟩ := bind_ok hk; have := pure_ok hk; subst this; rfl
      · split at hk <;> (have := pure_ok hk; subst this; rfl)
    · obtain ⟨f, _, hk⟩ := bind_ok hk; have := pure_ok hk; subst this; rfl

theorem gatherPr_elem (i : Nat) (p : Option Str) (t : QName) (m : NsMap) (a : List (QName × Str)) (tx tl : Option Str) (ks : List Xml) :
    gatherPr (.elem i p t m a tx tl ks) =
      (match ks.find? (fun k => k.tag? == some ⟨t.ns, t.name ++ lit "Pr"⟩) with
       | none => pure []
       | some pr => gatherFold pr.kids []) := rfl

theorem key_tag_eq (cfg : PartCfg) (x y : Xml) (k : ElemKey) (hx : elemKey cfg x = .ok k) (hy : elemKey cfg y = .ok k)
    (ex : x.isElem = true) (ey : y.isElem = true) : x.tag? = y.tag? := by
  rw [elemKey_with] at hx hy
  have h1 := elemKeyWith_tag cfg _ _ k hx
  have h2 := elemKeyWith_tag cfg _ _ k hy
  cases x <;> cases y <;> simp_all [Xml.isElem, Xml.tag?]

theorem formatPr_nil (html : Bool) : formatPr html [] = [] := by
  cases html <;> simp [formatPr, renderedProps, groupKeys, sortStrs]

theorem mergeable_not_p (x : Xml) (h : isMergeable x = true) : (x.ptag == lit "w:p") = false := by
  unfold isMergeable mergeableTagsL at h
  simp only [Gen.mergeableTags, List.map_cons, List.map_nil, List.contains_cons, List.contains_nil, Bool.or_false,
    Bool.or_eq_true, beq_iff_eq] at h
  rcases h with h | h | h | h <;> (rw [h]; decide)

theorem find_flatMap_kids (P : Xml → Bool) : ∀ (rest : List Xml) (pr : Xml),
    (rest.flatMap Xml.kids).find? P = some pr → ∃ r ∈ rest, r.kids.find? P = some pr := by
  intro rest
  induction rest with
  | nil => intro pr h; simp at h
  | cons r rest ih =>
    intro pr h
    simp only [List.flatMap_cons, List.find?_append] at h
    cases hr : r.kids.find? P with
    | some q => rw [hr] at h; simp only [Option.some_or] at h; cases h; exact ⟨r, by simp, hr⟩
    | none =>
      rw [hr] at h; simp only [Option.none_or] at h
      obtain ⟨r', hr', h'⟩ := ih pr h
      exact ⟨r', by simp [hr'], h'⟩

/-- **the merged element has the key of its group** -/
theorem elemKey_merged (cfg : PartCfg) (first : Xml) (rest : List Xml) (k : ElemKey)
    (hm : isMergeable first = true)
    (he : ∀ x ∈ first :: rest, x.isElem = true)
    (hk : ∀ x ∈ first :: rest, elemKey cfg x = .ok k)
    (hp : ∀ r ∈ rest, r.tag? = first.tag? → r.ptag = first.ptag) :
    elemKey cfg (mergedOf (first :: rest)) = .ok k := by
  have hk1 := hk first (by simp)
  cases first with
  | comment _ _ => have := he _ (List.mem_cons_self ..); simp [Xml.isElem] at this
  | pi _ => have := he _ (List.mem_cons_self ..); simp [Xml.isElem] at this
  | elem i p t m a tx tl ks =>
    have hmg : mergedOf (Xml.elem i p t m a tx tl ks :: rest) =
        Xml.elem i p t m a (newTextOf (Xml.elem i p t m a tx tl ks :: rest)) tl (ks ++ rest.flatMap Xml.kids) := rfl
    rw [hmg]
    generalize newTextOf (Xml.elem i p t m a tx tl ks :: rest) = nt
    have hpt : (Xml.elem i p t m a nt tl (ks ++ rest.flatMap Xml.kids)).ptag = (Xml.elem i p t m a tx tl ks).ptag := by
      cases p <;> rfl
    rw [elemKey_with] at hk1 ⊢
    rw [elemKeyWith_shell cfg i p t m a nt tx tl (ks ++ rest.flatMap Xml.kids) ks]
    -- it suffices to compare the formatting consulted
    by_cases hr : ((Xml.elem i p t m a tx tl ks).ptag == lit "w:r") = true
    · -- a run
      have hfm : ∀ (x : Xml), (x.ptag == lit "w:r") = true → htmlFormatting cfg.html x = runFormatting cfg.html x := by
        intro x hx; unfold htmlFormatting; simp only [hx, if_true]
      rw [hfm _ (by rw [hpt]; exact hr)]
      rw [hfm _ hr] at hk1
      unfold runFormatting at hk1 ⊢
      rw [gatherPr_elem] at hk1 ⊢
      rw [List.find?_append]
      cases hfk : ks.find? (fun k => k.tag? == some ⟨t.ns, t.name ++ lit "Pr"⟩) with
      | some pr => simp only [hfk, Option.some_or] at hk1 ⊢; exact hk1
      | none =>
        simp only [hfk, Option.none_or] at hk1 ⊢
        cases hmv : (rest.flatMap Xml.kids).find? (fun k => k.tag? == some ⟨t.ns, t.name ++ lit "Pr"⟩) with
        | none => exact hk1
        | some pr =>
          simp only
          obtain ⟨r, hrm, hrk⟩ := find_flatMap_kids _ rest pr hmv
          have hkr := hk r (by simp [hrm])
          have her := he r (by simp [hrm])
          -- r carries the same tag, hence the same prefixed tag
          have ht1 := elemKeyWith_tag cfg _ _ k hk1
          rw [elemKey_with] at hkr
          have ht2 := elemKeyWith_tag cfg _ _ k hkr
          have hrt : r.tag? = some t := by
            cases r with
            | elem _ _ t' _ _ _ _ _ =>
              simp only [Xml.tag?, Option.getD_some] at ht1 ht2
              simp only [Xml.tag?]; rw [← ht2, ht1]
            | comment _ _ => simp [Xml.isElem] at her
            | pi _ => simp [Xml.isElem] at her
          have hrp : r.ptag = (Xml.elem i p t m a tx tl ks).ptag := hp r hrm (by rw [hrt]; rfl)
          have hrr : (r.ptag == lit "w:r") = true := by rw [hrp]; exact hr
          have hrm' : isMergeable r = true := by unfold isMergeable at hm ⊢; rw [hrp]; exact hm
          -- the formatting of r is that of the Pr element that was moved
          have hfr : htmlFormatting cfg.html r = (gatherFold pr.kids [] >>= fun d => pure (formatPr cfg.html d)) := by
            rw [hfm r hrr]
            unfold runFormatting gatherPr
            simp only [hrt, Xml.findChild, hrk]
          rw [hfr] at hkr
          -- the first's key consulted the formatting (else the keys could not agree) …
          cases hb1 : fmtBranch (Xml.elem i p t m a tx tl ks) with
          | false =>
            rw [elemKeyWith_nofmt cfg _ _ (pure [] >>= fun d => pure (formatPr cfg.html d)) hb1]
            exact hk1
          | true =>
            rw [elemKeyWith_fmt cfg _ _ hb1] at hk1 ⊢
            have e1 := pure_ok hk1
            -- … and so did r's
            cases hb2 : fmtBranch r with
            | false =>
              rcases elemKeyWith_nofmt_shape cfg r _ k hb2 hrm' hkr with h | h
              · rw [← e1] at h; exact absurd rfl h
              · rw [← e1] at h; simp [formatPr_nil] at h
            | true =>
              rw [elemKeyWith_fmt cfg _ _ hb2] at hkr
              obtain ⟨f, hf, hkr⟩ := bind_ok hkr
              have e2 := pure_ok hkr
              rw [hf]
              simp only [ok_bind]
              rw [← e2, hrt]
              rfl
    · -- not a run: the formatting consulted does not look at the children
      have hr' : ((Xml.elem i p t m a tx tl ks).ptag == lit "w:r") = false := by simpa using hr
      have hnp := mergeable_not_p _ hm
      have e1 : htmlFormatting cfg.html (Xml.elem i p t m a nt tl (ks ++ rest.flatMap Xml.kids)) = pure [] := by
        unfold htmlFormatting; rw [hpt]; simp only [hr', hnp, Bool.false_eq_true, if_false]
      have e2 : htmlFormatting cfg.html (Xml.elem i p t m a tx tl ks) = pure [] := by
        unfold htmlFormatting; simp only [hr', hnp, Bool.false_eq_true, if_false]
      rw [e1]; rw [e2] at hk1; exact hk1

/-! ## merging again -/

theorem runs_ne_nil (κ : Xml → ElemKey) (gs : List (List Xml)) (h : Runs κ gs) : ∀ g ∈ gs, g ≠ [] := by
  induction h with
  | nil => intro g hg; simp at hg
  | one a g _ => intro g' hg'; simp at hg'; subst hg'; simp
  | cons a g b h gs _ _ _ ih =>
    intro g' hg'
    rcases List.mem_cons.1 hg' with rfl | hg'
    · simp
    · exact ih g' hg'

theorem runs_homog (κ : Xml → ElemKey) (gs : List (List Xml)) (h : Runs κ gs) :
    ∀ g ∈ gs, ∃ a t, g = a :: t ∧ ∀ x ∈ t, κ x = κ a := by
  induction h with
  | nil => intro g hg; simp at hg
  | one a g hom => intro g' hg'; simp at hg'; subst hg'; exact ⟨a, g, rfl, hom⟩
  | cons a g b h gs hom _ _ ih =>
    intro g' hg'
    rcases List.mem_cons.1 hg' with rfl | hg'
    · exact ⟨a, g, rfl, hom⟩
    · exact ih g' hg'

/-- a map that keeps every group nonempty, of one key, with the key it had -/
theorem runs_map (κ : Xml → ElemKey) (ρ : List Xml → List Xml) (gs : List (List Xml)) (h : Runs κ gs)
    (hρ : ∀ a t, (a :: t) ∈ gs → (∀ x ∈ t, κ x = κ a) → ∃ a' t', ρ (a :: t) = a' :: t' ∧ κ a' = κ a ∧ ∀ x ∈ t', κ x = κ a') :
    Runs κ (gs.map ρ) := by
  induction h with
  | nil => exact Runs.nil
  | one a g hom =>
    obtain ⟨a', t', e, _, hom'⟩ := hρ a g (by simp) hom
    simp only [List.map_cons, List.map_nil, e]
    exact Runs.one a' t' hom'
  | cons a g b h gs hom hne R ih =>
    obtain ⟨a', t', e, ka, hom'⟩ := hρ a g (by simp) hom
    have homb : ∀ x ∈ h, κ x = κ b := by
      obtain ⟨b2, h2, e2, hh⟩ := runs_homog κ _ R (b :: h) (by simp)
      cases e2; exact hh
    obtain ⟨b', u', eb, kb, _⟩ := hρ b h (by simp) homb
    have ih' := ih (fun a0 t0 hm hh => hρ a0 t0 (by simp [hm]) hh)
    simp only [List.map_cons, e, eb] at ih' ⊢
    exact Runs.cons a' t' b' u' _ hom' (by rw [ka, kb]; exact hne) ih'

theorem foldl_applyGroup_noop : ∀ (R : List (List Xml)) (L : List Xml), (∀ g ∈ R, merges g = false) → R.foldl applyGroup L = L := by
  intro R
  induction R with
  | nil => intro L _; rfl
  | cons g R ih =>
    intro L h
    simp only [List.foldl_cons, applyGroup_eq, h g (by simp), Bool.false_eq_true, if_false]
    exact ih L (fun g' hg' => h g' (by simp [hg']))

theorem merges_repL (g : List Xml) : ∀ g' , g' = repL g → merges g' = false := by
  intro g' e
  unfold repL at e
  cases hm : merges g with
  | true => simp only [hm, if_true] at e; subst e; simp [merges]
  | false => simp only [hm, Bool.false_eq_true, if_false] at e; subst e; exact hm

/-- children whose tags agree carry the same prefix (one prefix per namespace) -/
def PrefixConsistent (kids : List Xml) : Prop := ∀ x ∈ kids, ∀ y ∈ kids, x.tag? = y.tag? → x.ptag = y.ptag

/-- everything `mergeLevel` does to a children list with distinct identities -/
theorem mergeLevel_spec (cfg : PartCfg) (kids ks1 : List Xml) (hn : (kids.filterMap Xml.id?).Nodup)
    (h : mergeLevel cfg kids = .ok ks1) :
    ∃ gs, Runs (keyOf cfg) gs ∧ gs.flatten = kids.filter hasContent ∧
      (∀ x ∈ kids.filter hasContent, elemKey cfg x = .ok (keyOf cfg x)) ∧
      ks1 = gs.foldl applyGroup kids ∧
      ks1.filter hasContent = (gs.map repL).flatten ∧
      (ks1.filterMap Xml.id?).Nodup ∧
      (∀ k ∈ ks1, k ∈ kids ∨ ∃ g ∈ gs, merges g = true ∧ k = mergedOf g) ∧
      (∀ P : Xml → Bool, TagOnly P → (∀ x ∈ kids, P x = true → ∀ g ∈ gs, merges g = true → x ∉ g) → ks1.filter P = kids.filter P) := by
  unfold mergeLevel at h
  obtain ⟨kc, hkc, h⟩ := bind_ok h
  have := pure_ok h; subst this
  obtain ⟨e, hall⟩ := keyed_ok cfg _ kc hkc
  subst e
  have hruns : ∃ gs, groupAdj (tagK (keyOf cfg) (kids.filter hasContent)) = gs ∧ Runs (keyOf cfg) gs ∧ gs.flatten = kids.filter hasContent := by
    cases hcs : kids.filter hasContent with
    | nil => exact ⟨[], rfl, Runs.nil, rfl⟩
    | cons b rest =>
      obtain ⟨h', gs', e1, e2, e3⟩ := runs_groupAdj (keyOf cfg) rest b
      exact ⟨_, e1, e2, by simpa using e3⟩
  obtain ⟨gs, eg, hr, hf⟩ := hruns
  rw [eg]
  obtain ⟨f1, f2, f3, f4⟩ := fold_groups gs kids [] hn (by simpa using hf.symm) (runs_ne_nil _ _ hr)
  exact ⟨gs, hr, hf, hall, rfl, by simpa using f1, f2, f3, f4⟩

theorem keyOf_ok (cfg : PartCfg) (x : Xml) (k : ElemKey) (h : elemKey cfg x = .ok k) : keyOf cfg x = k := by
  simp [keyOf, h]

/-- the merged children, described for a second pass: their content-bearing members are the groups
`gs.map repL`, which are again maximal runs of one key, all with a key, none of them merging -/
theorem merged_level (cfg : PartCfg) (kids ks1 : List Xml) (hn : (kids.filterMap Xml.id?).Nodup)
    (hpc : PrefixConsistent kids) (h : mergeLevel cfg kids = .ok ks1) :
    ∃ gs, Runs (keyOf cfg) gs ∧ gs.flatten = kids.filter hasContent ∧
      (∀ x ∈ kids.filter hasContent, elemKey cfg x = .ok (keyOf cfg x)) ∧
      ks1 = gs.foldl applyGroup kids ∧
      ks1.filter hasContent = (gs.map repL).flatten ∧
      (∀ k ∈ ks1, k ∈ kids ∨ ∃ g ∈ gs, merges g = true ∧ k = mergedOf g) ∧
      (∀ P : Xml → Bool, TagOnly P → (∀ x ∈ kids, P x = true → isMergeable x = false) → ks1.filter P = kids.filter P) ∧
      Runs (keyOf cfg) (gs.map repL) ∧
      (∀ x ∈ (gs.map repL).flatten, elemKey cfg x = .ok (keyOf cfg x)) := by
  obtain ⟨gs, hr, hf, hall, hfold, f1, _, f3, f4⟩ := mergeLevel_spec cfg kids ks1 hn h
  have hsub : ∀ g ∈ gs, ∀ x ∈ g, x ∈ kids ∧ hasContent x = true := by
    intro g hg x hx
    have : x ∈ kids.filter hasContent := by rw [← hf]; exact List.mem_flatten.2 ⟨g, hg, hx⟩
    exact List.mem_filter.1 this
  -- the key of what replaces a group
  have hkey : ∀ a t, (a :: t) ∈ gs → (∀ x ∈ t, keyOf cfg x = keyOf cfg a) → merges (a :: t) = true →
      elemKey cfg (mergedOf (a :: t)) = .ok (keyOf cfg a) := by
    intro a t hm hom hmg
    have hma : isMergeable a = true := by
      unfold merges at hmg; simp only [Bool.and_eq_true] at hmg; exact hmg.2
    apply elemKey_merged cfg a t (keyOf cfg a) hma
    · intro x hx; exact hasContent_isElem x (hsub _ hm x hx).2
    · intro x hx
      have hx' := hsub _ hm x hx
      have := hall x (List.mem_filter.2 hx')
      rcases List.mem_cons.1 hx with rfl | hxt
      · exact this
      · rw [← hom x hxt]; exact this
    · intro r hr' ht
      exact hpc r (hsub _ hm r (by simp [hr'])).1 a (hsub _ hm a (by simp)).1 ht
  have hruns' : Runs (keyOf cfg) (gs.map repL) := by
    apply runs_map _ _ _ hr
    intro a t hm hom
    cases hmg : merges (a :: t) with
    | true =>
      refine ⟨mergedOf (a :: t), [], by simp [repL, hmg], ?_, by simp⟩
      exact keyOf_ok cfg _ _ (hkey a t hm hom hmg)
    | false => exact ⟨a, t, by simp [repL, hmg], rfl, hom⟩
  have hok : ∀ x ∈ (gs.map repL).flatten, elemKey cfg x = .ok (keyOf cfg x) := by
    intro x hx
    obtain ⟨g', hg', hxg⟩ := List.mem_flatten.1 hx
    obtain ⟨g, hg, rfl⟩ := List.mem_map.1 hg'
    obtain ⟨a, t, rfl, hom⟩ := runs_homog _ _ hr g hg
    cases hmg : merges (a :: t) with
    | true =>
      simp only [repL, hmg, if_true, List.mem_singleton] at hxg
      subst hxg
      have := hkey a t hg hom hmg
      rw [keyOf_ok cfg _ _ this]; exact this
    | false =>
      simp only [repL, hmg, Bool.false_eq_true, if_false] at hxg
      exact hall x (List.mem_filter.2 (hsub _ hg x hxg))
  -- a child that is not mergeable is not a member of a merging group: members share the first's tag, hence its prefixed tag
  have f4' : ∀ P : Xml → Bool, TagOnly P → (∀ x ∈ kids, P x = true → isMergeable x = false) → ks1.filter P = kids.filter P := by
    intro P hP hnm
    apply f4 P hP
    intro x hx hPx g hg hmg hxg
    obtain ⟨a, t, rfl, hom⟩ := runs_homog _ _ hr g hg
    have hma : isMergeable a = true := by
      unfold merges at hmg; simp only [Bool.and_eq_true] at hmg; exact hmg.2
    have ha := hsub _ hg a (by simp)
    have hx' := hsub _ hg x hxg
    have ka := hall a (List.mem_filter.2 ha)
    have kx := hall x (List.mem_filter.2 hx')
    have hkey : keyOf cfg x = keyOf cfg a := by
      rcases List.mem_cons.1 hxg with e | h
      · rw [e]
      · exact hom x h
    rw [hkey] at kx
    have htag := key_tag_eq cfg x a _ kx ka (hasContent_isElem x hx'.2) (hasContent_isElem a ha.2)
    have hpt := hpc x hx'.1 a ha.1 htag
    have : isMergeable x = true := by unfold isMergeable at hma ⊢; rw [hpt]; exact hma
    rw [hnm x hx hPx] at this; cases this
  exact ⟨gs, hr, hf, hall, hfold, f1, f3, f4', hruns', hok⟩

/-- **merging the merged children again changes nothing** -/
theorem mergeLevel_idem (cfg : PartCfg) (kids ks1 : List Xml) (hn : (kids.filterMap Xml.id?).Nodup)
    (hpc : PrefixConsistent kids) (h : mergeLevel cfg kids = .ok ks1) :
    mergeLevel cfg ks1 = .ok ks1 := by
  obtain ⟨gs, _, _, _, _, f1, _, _, hruns', hok⟩ := merged_level cfg kids ks1 hn hpc h
  unfold mergeLevel
  rw [f1, keyed_of_ok cfg _ (fun x hx => ⟨_, hok x hx⟩)]
  simp only [ok_bind]
  rw [groupAdj_of_runs _ _ hruns']
  show Except.ok ((gs.map repL).foldl applyGroup ks1) = Except.ok ks1
  rw [foldl_applyGroup_noop]
  intro g' hg'
  obtain ⟨g, _, rfl⟩ := List.mem_map.1 hg'
  exact merges_repL g _ rfl

end D2P

namespace D2P.Ex
/-- non-vacuity of `mergeLevel_idem`: three pieces of a run among markup — identities distinct, one prefix per namespace -/
example : ((pieces3.filterMap Xml.id?).Nodup ∧ PrefixConsistent pieces3) ∧ (mergeLevel cfg pieces3).toOption.isSome = true := by
  refine ⟨⟨by decide +kernel, ?_⟩, by decide +kernel⟩
  unfold PrefixConsistent
  decide +kernel
end D2P.Ex
