import D2P.Proofs.Erase
import D2P.Proofs.Hyperlink
import D2P.Spec.Skeleton
/-!
# The walk refines the structural machine (`walk_abs`)
-/
namespace D2P

theorem absDC_queued (s : DC) : (absDC s).queued = s.queued.map (fun _ => ({ style := [] } : Run)) := rfl

theorem commencePar_abs (html : Bool) (s s' : DC) (elem : Option Xml) (c : Bool)
    (h : s.commencePar html elem c = .ok s') : (absDC s).commenceParA elem c = .ok (absDC s') := by
  unfold DC.commencePar at h
  unfold DC.commenceParA
  obtain ⟨s1, h1, h⟩ := bind_ok h
  obtain ⟨hs, _, h⟩ := bind_ok h
  obtain ⟨st, h3, h⟩ := bind_ok h
  have := pure_ok h; subst this
  simp only [setCaret_abs s s1 _ _ h1, ok_bind]
  cases elem with
  | none =>
    simp only at h3 ⊢
    have := pure_ok h3; subst this
    show Except.ok _ = Except.ok _
    congr 1
    simp [absDC, erasePar]
  | some e =>
    simp only at h3 ⊢
    rw [h3]
    show Except.ok _ = Except.ok _
    congr 1
    simp [absDC, erasePar]

theorem ensurePar_abs (html : Bool) (s s' : DC) (h : s.ensurePar html = .ok s') :
    (absDC s).ensureParA = .ok (absDC s') := by
  unfold DC.ensurePar at h
  unfold DC.ensureParA
  have he : (absDC s).openPars.isEmpty = s.openPars.isEmpty := by simp [absDC]
  rw [he]
  split
  · rename_i hc; rw [if_pos hc] at h; exact commencePar_abs html s s' none false h
  · rename_i hc; rw [if_neg hc] at h; have := pure_ok h; subst this; rfl

/-- rewriting the runs of the open paragraph is invisible -/
theorem modTop_runs (s : DC) (f : Par → Par) (hf : ∀ p, erasePar (f p) = erasePar p) : absDC (s.modTop f) = absDC s := by
  unfold DC.modTop
  cases hl : s.openPars.getLast? with
  | none => rfl
  | some p =>
    simp only
    have hne : s.openPars ≠ [] := by intro e; rw [e] at hl; simp at hl
    have hlast : s.openPars.getLast hne = p := by
      rw [List.getLast?_eq_some_getLast hne] at hl; exact Option.some.inj hl
    have hsplit := List.dropLast_concat_getLast hne
    rw [hlast] at hsplit
    simp only [absDC, List.map_append, List.map_cons, List.map_nil, hf p]
    congr 1
    conv => rhs; rw [← hsplit]
    simp

theorem ok_modTop_runs {x : M DC} (s : DC) (f : Par → Par) (h : x = .ok (absDC s))
    (hf : ∀ p, erasePar (f p) = erasePar p) : x = .ok (absDC (s.modTop f)) := by
  rw [modTop_runs s f hf]; exact h

theorem commenceRun_abs (html : Bool) (s s' : DC) (e : Option Xml) (h : s.commenceRun html e = .ok s') :
    (absDC s).ensureParA = .ok (absDC s') := by
  unfold DC.commenceRun at h
  obtain ⟨st, _, h⟩ := bind_ok h
  obtain ⟨s1, h1, h⟩ := bind_ok h
  have := pure_ok h; subst this
  exact ok_modTop_runs s1 _ (ensurePar_abs html s s1 h1) (fun p => rfl)

theorem ensureRun_abs (html : Bool) (s s' : DC) (h : s.ensureRun html = .ok s') :
    (absDC s).ensureParA = .ok (absDC s') := by
  unfold DC.ensureRun at h
  obtain ⟨s1, h1, h⟩ := bind_ok h
  have := pure_ok h; subst this
  exact ok_modTop_runs s1 _ (ensurePar_abs html s s1 h1) (fun p => by split <;> rfl)

theorem erasePar_appendToLastRun (p : Par) (t : Str) : erasePar (appendToLastRun p t) = erasePar p := by
  unfold appendToLastRun; split <;> rfl

theorem addCode_abs (html : Bool) (s s' : DC) (t : Str) (h : s.addCode html t = .ok s') :
    (absDC s).ensureParA = .ok (absDC s') := by
  unfold DC.addCode at h
  obtain ⟨s1, h1, h⟩ := bind_ok h
  have := pure_ok h; subst this
  exact ok_modTop_runs s1 _ (ensureRun_abs html s s1 h1) (fun p => erasePar_appendToLastRun p t)

theorem addText_abs (html : Bool) (s s' : DC) (t : Str) (h : s.addText html t = .ok s') :
    (absDC s).ensureParA = .ok (absDC s') := addCode_abs html s s' _ h

theorem insertNewRun_abs (html : Bool) (s s' : DC) (t : Str) (h : s.insertNewRun html t = .ok s') :
    (absDC s).ensureParA = .ok (absDC s') := by
  unfold DC.insertNewRun at h
  obtain ⟨s1, h1, h⟩ := bind_ok h
  have := pure_ok h; subst this
  exact ok_modTop_runs s1 _ (ensureRun_abs html s s1 h1) (fun p => rfl)

theorem queueRun_abs (s : DC) (t : Str) : absDC (s.queueRun t) = (absDC s).queueRunA := by
  simp [DC.queueRun, DC.queueRunA, absDC]

theorem startRange_abs (s s' : DC) (id : Str) (h : s.startRange id = .ok s') : absDC s' = absDC s := by
  unfold DC.startRange at h
  obtain ⟨c, _, h⟩ := bind_ok h
  have := pure_ok h; subst this; rfl

theorem endRange_abs (s s' : DC) (id : Str) (h : s.endRange id = .ok s') : absDC s' = absDC s := by
  unfold DC.endRange at h
  obtain ⟨c, _, h⟩ := bind_ok h
  have := pure_ok h; subst this; rfl

theorem concludePar_abs (s s' : DC) (h : s.concludePar = .ok s') : (absDC s).concludePar = .ok (absDC s') := by
  unfold DC.concludePar at h ⊢
  have hl : (absDC s).openPars.getLast? = s.openPars.getLast?.map erasePar := by simp [absDC, List.getLast?_map]
  rw [hl]
  cases hp : s.openPars.getLast? with
  | none => simp only [hp] at h; have := pure_ok h; subst this; rfl
  | some p =>
    simp only [hp] at h
    obtain ⟨s1, h1, h⟩ := bind_ok h
    simp only [Option.map_some]
    have e : ({ absDC s with openPars := (absDC s).openPars.dropLast } : DC) = absDC { s with openPars := s.openPars.dropLast } := by
      simp [absDC, List.map_dropLast]
    rw [e, setCaret_abs _ s1 _ _ h1]
    simp only [ok_bind]
    exact appendAtCaret_abs s1 s' (.par p) h

theorem modTop_abs (s : DC) (f : Par → Par) (hf : ∀ p, erasePar (f p) = f (erasePar p)) :
    absDC (s.modTop f) = (absDC s).modTop f := by
  unfold DC.modTop
  have hl : (absDC s).openPars.getLast? = s.openPars.getLast?.map erasePar := by simp [absDC, List.getLast?_map]
  rw [hl]
  cases hp : s.openPars.getLast? with
  | none => rfl
  | some p => simp [absDC, List.map_dropLast, hf]

theorem openParagraph_abs (cfg : PartCfg) (s s' : DC) (x : Xml) (c : Bool) (h : openParagraph cfg s x c = .ok s') :
    openParagraphA (absDC s) x c = .ok (absDC s') := by
  unfold openParagraph at h
  unfold openParagraphA
  obtain ⟨s1, h1, h⟩ := bind_ok h
  obtain ⟨bb, h2, h⟩ := bind_ok h
  obtain ⟨s2, h3, h⟩ := bind_ok h
  have := pure_ok h; subst this
  have hb : (absDC s1).bullets = s1.bullets := rfl
  simp only [commencePar_abs cfg.html s s1 _ c h1, ok_bind, hb, h2]
  have := insertNewRun_abs cfg.html _ s2 _ h3
  have e : absDC { s1 with bullets := (listPosition bb.1 x (x.id?.getD 0)).1 } =
      { absDC s1 with bullets := (listPosition bb.1 x (x.id?.getD 0)).1 } := rfl
  rw [e] at this
  simp only [this, ok_bind]
  rw [modTop_abs s2 (fun p => { p with listPos := (listPosition bb.1 x (x.id?.getD 0)).2 }) (fun p => rfl)]
  rfl

theorem flushImplicit_abs (s s' : DC) (d : Option Nat) (h : s.flushImplicit d = .ok s') :
    (absDC s).flushImplicit d = .ok (absDC s') := by
  unfold DC.flushImplicit at h ⊢
  cases d with
  | none => have := pure_ok h; subst this; rfl
  | some d =>
    simp only at h ⊢
    have e : (absDC s).openPars.getLast? = s.openPars.getLast?.map erasePar := by simp [absDC, List.getLast?_map]
    rw [e]
    cases hl : s.openPars.getLast? with
    | none => rw [hl] at h; have := pure_ok h; subst this; rfl
    | some p =>
      rw [hl] at h
      simp only [Option.map_some] at h ⊢
      have ee : (erasePar p).elem = p.elem := rfl
      rw [ee]
      split
      · rename_i hn; rw [if_pos hn] at h; exact concludePar_abs s s' h
      · rename_i hn; rw [if_neg hn] at h; have := pure_ok h; subst this; rfl

theorem noteLabel_abs (s s' : DC) (x : Xml) (kind : String) (h : noteLabel s x kind = .ok s') :
    ∃ sep, isSeparatorNote x = .ok sep ∧
      (if sep then pure (absDC s) else (absDC s).flushImplicit (some 4) >>= fun a0 => pure a0.queueRunA) = .ok (absDC s') := by
  unfold noteLabel at h
  obtain ⟨sep, hs, h⟩ := bind_ok h
  refine ⟨sep, hs, ?_⟩
  cases sep with
  | true => simp only [if_true] at h ⊢; have := pure_ok h; subst this; rfl
  | false =>
    simp only [Bool.false_eq_true, if_false] at h ⊢
    obtain ⟨id, _, h⟩ := bind_ok h
    obtain ⟨s0, h0, h⟩ := bind_ok h
    have := pure_ok h; subst this
    rw [flushImplicit_abs s s0 _ h0]
    simp only [ok_bind, pure, Except.pure, queueRun_abs]

theorem insertOpt_abs (html : Bool) (s s' : DC) (t : Option Str) (h : insertOpt html s t = .ok s') :
    (t.isSome = false ∧ absDC s' = absDC s) ∨ (t.isSome = true ∧ (absDC s).ensureParA = .ok (absDC s')) := by
  unfold insertOpt at h
  cases t with
  | none => have := pure_ok h; subst this; exact Or.inl ⟨rfl, rfl⟩
  | some t => exact Or.inr ⟨rfl, insertNewRun_abs html s s' t h⟩

theorem imageRun_rels (cfg : PartCfg) (x : Xml) (a : String) : imageRun (relsCfg cfg.rels) x a = imageRun cfg x a := rfl

theorem openHyperlink_abs (cfg : PartCfg) (s s' : DC) (x : Xml) (roots : List (List Nest))
    (h : openHyperlink cfg s x roots = .ok s') : (absDC s).ensureParA = .ok (absDC s') := by
  unfold openHyperlink at h
  obtain ⟨tx, _, h⟩ := bind_ok h
  obtain ⟨qs, _, h⟩ := bind_ok h
  obtain ⟨s1, h1, h⟩ := bind_ok h
  obtain ⟨rn, _, h⟩ := bind_ok h
  obtain ⟨s2, h2, h⟩ := bind_ok h
  obtain ⟨qe, _, h⟩ := bind_ok h
  have e1 : absDC s1 = absDC s := foldIds_preserves (P := fun a => absDC a = absDC s) DC.startRange
    (fun a id b ha hb => (startRange_abs a b id hb).trans ha) _ s s1 rfl h1
  have e2 := insertNewRun_abs cfg.html s1 s2 _ h2
  have e3 : absDC s' = absDC s2 := foldIds_preserves (P := fun a => absDC a = absDC s2) DC.endRange
    (fun a id b ha hb => (endRange_abs a b id hb).trans ha) _ s2 s' rfl h
  rw [← e1, e3]; exact e2

theorem text_case {x : M DC} {a : DC} {s' : DC} {r d : Bool} (w : M (DC × Bool)) (hw : w = .ok (s', r))
    (hx : ∀ t, w = .ok (t, r) → a.ensureParA = .ok (absDC t) ∧ r = d) :
    (a.ensureParA >>= fun a' => pure (a', d)) = .ok (absDC s', r) := by
  obtain ⟨h1, h2⟩ := hx s' hw
  rw [h1, h2]; rfl

theorem openStep_abs (cfg : PartCfg) (s s' : DC) (x : Xml) (c : Bool) (roots : List (List Nest)) (r : Bool)
    (h : openStep cfg s x c roots = .ok (s', r)) : openStepA cfg.rels (absDC s) x c = .ok (absDC s', r) := by
  unfold openStep at h
  unfold openStepA openKind
  generalize tagMember x.ptag = m at h ⊢
  split at h
  · obtain ⟨h1, h2⟩ := withTrue_ok h; subst h2
    simp only [pure, Except.pure, ok_bind, openParagraph_abs cfg s s' x c h1]
  · obtain ⟨h1, h2⟩ := withTrue_ok h; subst h2
    simp only [pure, Except.pure, ok_bind, commenceRun_abs cfg.html s s' _ h1]
  · obtain ⟨h1, h2⟩ := withFalse_ok h; subst h2
    obtain ⟨id, _, h1⟩ := bind_ok h1
    simp only [pure, Except.pure, ok_bind, endRange_abs s s' id h1]
  · obtain ⟨h1, h2⟩ := withFalse_ok h; subst h2
    obtain ⟨id, _, h1⟩ := bind_ok h1
    simp only [pure, Except.pure, ok_bind, startRange_abs s s' id h1]
  · obtain ⟨h1, h2⟩ := withTrue_ok h; subst h2
    simp only [pure, Except.pure, ok_bind, addText_abs cfg.html s s' _ h1]
  · obtain ⟨h1, h2⟩ := withTrue_ok h; subst h2
    simp only [pure, Except.pure, ok_bind, addText_abs cfg.html s s' _ h1]
  · obtain ⟨h1, h2⟩ := withFalse_ok h; subst h2
    simp only [pure, Except.pure, ok_bind, insertNewRun_abs cfg.html s s' _ h1]
  · obtain ⟨h1, h2⟩ := withTrue_ok h; subst h2
    simp only [pure, Except.pure, ok_bind, addCode_abs cfg.html s s' _ h1]
  · obtain ⟨h1, h2⟩ := withTrue_ok h; subst h2
    obtain ⟨cde, hc, h1⟩ := bind_ok h1
    simp only [hc, ok_bind, pure, Except.pure]
    cases cde with
    | none => simp only at h1; have := pure_ok h1; subst this; rfl
    | some cd => simp only at h1; simp only [Option.isSome_some, textIf, if_true, addCode_abs cfg.html s s' _ h1, ok_bind]
  · obtain ⟨h1, h2⟩ := withTrue_ok h; subst h2
    obtain ⟨sep, hs, he⟩ := noteLabel_abs s s' x _ h1
    simp only [hs, ok_bind, pure, Except.pure]
    cases sep with
    | true => simp only [if_true, pure, Except.pure] at he ⊢; rw [Except.ok.inj he]
    | false =>
      simp only [Bool.false_eq_true, if_false] at he ⊢
      obtain ⟨a0, ha0, he⟩ := bind_ok he
      have := pure_ok he
      simp only [ha0, ok_bind, this]
  · obtain ⟨h1, h2⟩ := withTrue_ok h; subst h2
    obtain ⟨sep, hs, he⟩ := noteLabel_abs s s' x _ h1
    simp only [hs, ok_bind, pure, Except.pure]
    cases sep with
    | true => simp only [if_true, pure, Except.pure] at he ⊢; rw [Except.ok.inj he]
    | false =>
      simp only [Bool.false_eq_true, if_false] at he ⊢
      obtain ⟨a0, ha0, he⟩ := bind_ok he
      have := pure_ok he
      simp only [ha0, ok_bind, this]
  · obtain ⟨h1, h2⟩ := withFalse_ok h; subst h2
    simp only [pure, Except.pure, ok_bind, openHyperlink_abs cfg s s' x roots h1]
  · obtain ⟨h1, h2⟩ := withTrue_ok h; subst h2
    obtain ⟨tx, _, h1⟩ := bind_ok h1
    simp only [pure, Except.pure, ok_bind, insertNewRun_abs cfg.html s s' _ h1]
  · obtain ⟨h1, h2⟩ := withTrue_ok h; subst h2
    obtain ⟨tx, _, h1⟩ := bind_ok h1
    simp only [pure, Except.pure, ok_bind, insertNewRun_abs cfg.html s s' _ h1]
  · obtain ⟨h1, h2⟩ := withTrue_ok h; subst h2
    obtain ⟨tx, _, h1⟩ := bind_ok h1
    simp only [pure, Except.pure, ok_bind, insertNewRun_abs cfg.html s s' _ h1]
  · obtain ⟨h1, h2⟩ := withTrue_ok h; subst h2
    obtain ⟨tx, _, h1⟩ := bind_ok h1
    simp only [pure, Except.pure, ok_bind, insertNewRun_abs cfg.html s s' _ h1]
  · obtain ⟨h1, h2⟩ := withTrue_ok h; subst h2
    obtain ⟨tx, ht, h1⟩ := bind_ok h1
    simp only [imageRun_rels, ht, ok_bind, pure, Except.pure]
    rcases insertOpt_abs cfg.html s s' tx h1 with ⟨e1, e2⟩ | ⟨e1, e2⟩
    · simp only [e1, textIf, Bool.false_eq_true, if_false, e2]
    · simp only [e1, textIf, if_true, e2, ok_bind]
  · obtain ⟨h1, h2⟩ := withTrue_ok h; subst h2
    obtain ⟨tx, ht, h1⟩ := bind_ok h1
    simp only [imageRun_rels, ht, ok_bind, pure, Except.pure]
    rcases insertOpt_abs cfg.html s s' tx h1 with ⟨e1, e2⟩ | ⟨e1, e2⟩
    · simp only [e1, textIf, Bool.false_eq_true, if_false, e2]
    · simp only [e1, textIf, if_true, e2, ok_bind]
  · obtain ⟨h1, h2⟩ := withTrue_ok h; subst h2
    simp only [ok_bind, pure, Except.pure]
    rcases insertOpt_abs cfg.html s s' _ h1 with ⟨e1, e2⟩ | ⟨e1, e2⟩
    · simp only [Option.isSome_map] at e1
      simp only [e1, textIf, Bool.false_eq_true, if_false, e2]
    · simp only [Option.isSome_map] at e1
      simp only [e1, textIf, if_true, e2, ok_bind]
  · obtain ⟨h1, h2⟩ := withTrue_ok h; subst h2
    simp only [pure, Except.pure, ok_bind, insertNewRun_abs cfg.html s s' _ h1]
  · have := pure_ok h; cases this
    split <;> first | rfl | (exfalso; simp_all)

theorem setCaretOpen_abs (s s' : DC) (d : Option Nat) (n : Option Str) (h : s.setCaretOpen d n = .ok s') :
    (absDC s).setCaretOpen d n = .ok (absDC s') := by
  unfold DC.setCaretOpen at h ⊢
  obtain ⟨s0, h0, h⟩ := bind_ok h
  rw [flushImplicit_abs s s0 d h0]
  exact setCaret_abs s0 s' d n h

theorem closeStepCore_abs (cfg : PartCfg) (s s' : DC) (x : Xml) (h : closeStepCore cfg s x = .ok s') :
    closeStepACore cfg.dup (absDC s) x = .ok (absDC s') := by
  unfold closeStepCore at h
  unfold closeStepACore
  generalize tagMember x.ptag = m at h ⊢
  split at h
  · exact concludePar_abs s s' h
  · exact commenceRun_abs cfg.html s s' none h
  · exact closeTableCell_abs cfg.dup s s' x h
  · have := pure_ok h; subst this
    split <;> first | rfl | (exfalso; simp_all)

theorem closeStep_abs (cfg : PartCfg) (s s' : DC) (x : Xml) (h : closeStep cfg s x = .ok s') :
    closeStepA cfg.dup (absDC s) x = .ok (absDC s') := by
  obtain ⟨s0, h0, h⟩ := closeStep_split cfg s s' x h
  unfold closeStepA
  rw [flushImplicit_abs s s0 _ h0]
  exact closeStepCore_abs cfg s0 s' x h

theorem finish_abs (cfg : PartCfg) (s s' : DC) (h : finish cfg s = .ok s') : finishA (absDC s) = .ok (absDC s') := by
  unfold finish at h
  unfold finishA
  obtain ⟨s1, h1, h⟩ := bind_ok h
  have he : (absDC s).queued.isEmpty = s.queued.isEmpty := by simp [absDC]
  rw [he]
  have h1' : (if s.queued.isEmpty = true then pure (absDC s) else (absDC s).commenceParA none false) = .ok (absDC s1) := by
    split
    · rename_i hq; rw [if_pos hq] at h1; have := pure_ok h1; subst this; rfl
    · rename_i hq; rw [if_neg hq] at h1; exact commencePar_abs cfg.html s s1 none false h1
  rw [h1']
  exact concludePar_abs s1 s' h

mutual
/-- **the walk refines the structural machine**, whatever `html` is -/
theorem walk_abs (cfg : PartCfg) (num : Dict Str (List NumAttr)) :
    (x : Xml) → (c : Bool) → (s s' : DC) → walk cfg num c s x = .ok s' →
      walkA cfg.dup cfg.rels c (absDC s) x = .ok (absDC s')
  | .elem i p t m a tx tl ks, c, s, s', h => by
    simp only [walk] at h
    simp only [walkA]
    obtain ⟨s1, h1, h⟩ := bind_ok h
    obtain ⟨roots, _, h⟩ := bind_ok h
    obtain ⟨⟨s2, rec⟩, h2, h⟩ := bind_ok h
    obtain ⟨s3, h3, h⟩ := bind_ok h
    obtain ⟨s4, h4, h⟩ := bind_ok h
    simp only [setCaretOpen_abs s s1 _ _ h1, ok_bind, openStep_abs cfg s1 s2 _ c roots rec h2]
    have h3' : (if rec = true then walkLA cfg.dup cfg.rels (c || isCellTag (.elem i p t m a tx tl ks)) (absDC s2) ks
        else pure (absDC s2)) = .ok (absDC s3) := by
      simp only at h3
      split
      · rename_i hr; rw [if_pos hr] at h3; exact walkL_abs cfg num ks _ s2 s3 h3
      · rename_i hr; rw [if_neg hr] at h3; have := pure_ok h3; subst this; rfl
    rw [h3']
    simp only [ok_bind, closeStep_abs cfg s3 s4 _ h4]
    exact setCaret_abs s4 s' _ _ h
  | .comment _ _, c, s, s', h => by simp only [walk] at h; have := pure_ok h; subst this; rfl
  | .pi _, c, s, s', h => by simp only [walk] at h; have := pure_ok h; subst this; rfl
theorem walkL_abs (cfg : PartCfg) (num : Dict Str (List NumAttr)) :
    (xs : List Xml) → (c : Bool) → (s s' : DC) → walkL cfg num c s xs = .ok s' →
      walkLA cfg.dup cfg.rels c (absDC s) xs = .ok (absDC s')
  | [], c, s, s', h => by simp only [walkL] at h; have := pure_ok h; subst this; rfl
  | k :: ks, c, s, s', h => by
    simp only [walkL] at h
    obtain ⟨s1, h1, h⟩ := bind_ok h
    simp only [walkLA, walk_abs cfg num k c s s1 h1, ok_bind]
    exact walkL_abs cfg num ks c s1 s' h
end

/-- **a whole part**: `new_depth_collector` with the text erased is `skeletonOf` -/
theorem newDepthCollector_abs (cfg : PartCfg) (num : Dict Str (List NumAttr)) (root : Xml) (c : Bool) (dc : DC)
    (h : newDepthCollector cfg num root c = .ok dc) : skeletonOf cfg.dup cfg.rels num root c = .ok (absDC dc) := by
  unfold newDepthCollector at h
  unfold skeletonOf
  obtain ⟨s1, h1, h⟩ := bind_ok h
  have := walk_abs cfg num root c _ s1 h1
  have e : absDC ({ bullets := { numAttrs := num } } : DC) = { bullets := { numAttrs := num } } := rfl
  rw [e] at this
  rw [this]
  exact finish_abs cfg s1 dc h

end D2P
