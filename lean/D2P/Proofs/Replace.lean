import D2P.Model.Str
/-!
# Lemmas about the model of `str.replace`
-/
namespace D2P

theorem isPrefixOf_replicate_append (k n : Nat) (a : Char) (rest : Str) (h : k ≤ n) :
    isPrefixOf (List.replicate k a) (List.replicate n a ++ rest) = true := by
  induction k generalizing n with
  | zero => simp [isPrefixOf]
  | succ k ih =>
    cases n with
    | zero => omega
    | succ n => simp [List.replicate_succ, isPrefixOf, ih n (by omega)]

theorem isPrefixOf_short (k n : Nat) (a : Char) (rest : Str) (hn : n < k) (hr : ∀ c, rest.head? = some c → c ≠ a) :
    isPrefixOf (List.replicate k a) (List.replicate n a ++ rest) = false := by
  induction k generalizing n with
  | zero => omega
  | succ k ih =>
    cases n with
    | zero =>
      cases rest with
      | nil => simp [List.replicate_succ, isPrefixOf]
      | cons c cs =>
        have := hr c (by simp)
        simp [List.replicate_succ, isPrefixOf]
        intro h; exact absurd h.symm this
    | succ n =>
      simp only [List.replicate_succ, List.cons_append, isPrefixOf, beq_self_eq_true, Bool.true_and]
      exact ih n (by omega)

theorem isPrefixOf_head_ne (pat s : Str) (p c : Char) (h : p ≠ c) : isPrefixOf (p :: pat) (c :: s) = false := by
  simp [isPrefixOf, h]

/-- nothing to replace when the first pattern character does not occur -/
theorem replaceAux_notin (p : Char) (pat rep : Str) (f : Nat) (s : Str) (h : p ∉ s) :
    replaceAux (p :: pat) rep f s = s := by
  induction f generalizing s with
  | zero => simp [replaceAux]
  | succ f ih =>
    cases s with
    | nil => simp [replaceAux]
    | cons c cs =>
      have hc : p ≠ c := by intro e; subst e; simp at h
      have hcs : p ∉ cs := by intro e; exact h (List.mem_cons_of_mem _ e)
      simp [replaceAux, isPrefixOf_head_ne pat cs p c hc, ih cs hcs]

theorem drop_replicate_append (k n : Nat) (a : Char) (rest : Str) (h : k ≤ n) :
    (List.replicate n a ++ rest).drop k = List.replicate (n - k) a ++ rest := by
  induction k generalizing n with
  | zero => simp
  | succ k ih =>
    cases n with
    | zero => omega
    | succ n => simp [List.replicate_succ, ih n (by omega)]

theorem replace_short (k : Nat) (a : Char) (rep rest : Str) (ha : a ∉ rest) :
    ∀ (n f : Nat), n < k → replaceAux (List.replicate k a) rep f (List.replicate n a ++ rest) = List.replicate n a ++ rest := by
  intro n
  induction n with
  | zero =>
    intro f hk
    obtain ⟨k', rfl⟩ : ∃ k', k = k' + 1 := ⟨k - 1, by omega⟩
    simp only [List.replicate_zero, List.nil_append]
    rw [List.replicate_succ]; exact replaceAux_notin a _ rep f rest ha
  | succ n ihn =>
    intro f hk
    cases f with
    | zero => simp [replaceAux]
    | succ f =>
      have hr : ∀ c, rest.head? = some c → c ≠ a := by
        intro c hc e; subst e; cases rest with
        | nil => simp at hc
        | cons d ds => simp at hc; subst hc; simp at ha
      have hp := isPrefixOf_short k (n + 1) a rest hk hr
      rw [List.replicate_succ (n := n), List.cons_append] at hp ⊢
      simp only [replaceAux, hp]
      have := ihn f (by omega)
      simp [this]

/-- The block lemma: replacing `a^k` by `rep` in `a^n ++ rest` where `a ∉ rest`. -/
theorem replace_block (k : Nat) (hk : 0 < k) (a : Char) (rep rest : Str) (ha : a ∉ rest) :
    ∀ (n f : Nat), n + rest.length ≤ f →
      replaceAux (List.replicate k a) rep f (List.replicate n a ++ rest)
        = (List.replicate (n / k) rep).flatten ++ List.replicate (n % k) a ++ rest := by
  intro n
  induction n using Nat.strongRecOn with
  | _ n ih =>
    intro f hf
    obtain ⟨k', rfl⟩ : ∃ k', k = k' + 1 := ⟨k - 1, by omega⟩
    by_cases hnk : n < k' + 1
    · -- fewer than k copies left
      rw [Nat.div_eq_of_lt hnk, Nat.mod_eq_of_lt hnk]
      simp only [List.replicate_zero, List.flatten_nil, List.nil_append]
      exact replace_short (k' + 1) a rep rest ha n f hnk
    · -- at least k copies: one replacement, then recurse
      have hge : k' + 1 ≤ n := by omega
      cases f with
      | zero => omega
      | succ f =>
        obtain ⟨m, rfl⟩ : ∃ m, n = m + 1 := ⟨n - 1, by omega⟩
        have hp := isPrefixOf_replicate_append (k' + 1) (m + 1) a rest hge
        have hd := drop_replicate_append (k' + 1) (m + 1) a rest hge
        rw [List.replicate_succ (n := m), List.cons_append] at hp hd ⊢
        simp only [replaceAux, hp, List.length_replicate, if_true]
        rw [hd]
        have := ih (m + 1 - (k' + 1)) (by omega) f (by simp at hf ⊢; omega)
        rw [this]
        have h1 : (m + 1) / (k' + 1) = (m + 1 - (k' + 1)) / (k' + 1) + 1 := by
          rw [Nat.div_eq_sub_div (by omega) hge]
        have h2 : (m + 1) % (k' + 1) = (m + 1 - (k' + 1)) % (k' + 1) := by
          rw [Nat.mod_eq_sub_mod hge]
        rw [h1, h2, List.replicate_succ, List.flatten_cons]
        simp [List.append_assoc]

theorem replaceAux_fuel (p : Char) (pat rep : Str) : ∀ (n : Nat) (s : Str) (f : Nat), s.length = n → n ≤ f →
    replaceAux (p :: pat) rep f s = replaceAux (p :: pat) rep s.length s := by
  intro n
  induction n using Nat.strongRecOn with
  | _ n ih =>
    intro s f hn hf
    cases s with
    | nil => cases f <;> simp [replaceAux]
    | cons c cs =>
      cases f with
      | zero => simp at hn; omega
      | succ f =>
        simp only [replaceAux, List.length_cons]
        split
        · congr 1
          have hl : ((c :: cs).drop (pat.length + 1)).length < n := by
            simp only [List.drop_succ_cons, List.length_drop]; simp at hn; omega
          have hle : ((c :: cs).drop (pat.length + 1)).length ≤ cs.length := by
            simp only [List.drop_succ_cons, List.length_drop]; omega
          exact (ih _ hl ((c :: cs).drop (pat.length + 1)) f rfl (by omega)).trans
            (ih _ hl ((c :: cs).drop (pat.length + 1)) cs.length rfl hle).symm
        · congr 1
          have hl : cs.length < n := by simp at hn; omega
          rw [ih _ hl cs f rfl (by omega)]

theorem replace_eq (p : Char) (pat rep s : Str) (f : Nat) (hf : s.length ≤ f) :
    replaceAux (p :: pat) rep f s = replaceAll s (p :: pat) rep :=
  replaceAux_fuel p pat rep s.length s f rfl hf

theorem flatten_replicate_singleton (m : Nat) (b : Char) : (List.replicate m [b]).flatten = List.replicate m b := by
  induction m with
  | zero => simp
  | succ m ih => simp [List.replicate_succ, ih]

/-- block lemma in terms of `replace`, single-character replacement -/
theorem replace_block' (k' : Nat) (a b : Char) (rest : Str) (ha : a ∉ rest) (n : Nat) :
    replaceAll (List.replicate n a ++ rest) (List.replicate (k' + 1) a) [b]
      = List.replicate (n / (k' + 1)) b ++ List.replicate (n % (k' + 1)) a ++ rest := by
  unfold replaceAll
  rw [replace_block (k' + 1) (by omega) a [b] rest ha n _ (by simp)]
  rw [flatten_replicate_singleton]

/-- skipping a leading block of a character that does not start the pattern -/
theorem replace_skip (p : Char) (pat rep : Str) (m : Char) (hm : p ≠ m) (j : Nat) (t : Str) :
    replaceAll (List.replicate j m ++ t) (p :: pat) rep = List.replicate j m ++ replaceAll t (p :: pat) rep := by
  induction j with
  | zero => simp
  | succ j ih =>
    unfold replaceAll at ih ⊢
    simp only [List.replicate_succ, List.cons_append, List.length_cons, replaceAux, isPrefixOf_head_ne pat _ p m hm]
    simp only [Bool.false_eq_true, if_false]
    rw [replace_eq p pat rep _ _ (by simp)]
    unfold replaceAll
    rw [ih]

end D2P
