import D2P.Proofs.Paragraph
/-!
# With html off, a paragraph's string is the concatenation of its run texts
-/
namespace D2P

/-- no run and no paragraph carries html tags -/
def Par.unstyled (p : Par) : Prop := p.htmlStyle = [] ∧ ∀ r ∈ p.runs, r.style = []

theorem htmlClose_nil : htmlClose [] = .ok [] := rfl

theorem runStrs_unstyled : ∀ (rs : List Run), (∀ r ∈ rs, r.style = []) →
    ∃ ss, runStrs rs = .ok ss ∧ sjoin ss = sjoin (rs.map (·.text)) := by
  intro rs
  induction rs with
  | nil => intro _; exact ⟨[], rfl, rfl⟩
  | cons r rs ih =>
    intro h
    obtain ⟨ss, hs, hj⟩ := ih (fun x hx => h x (by simp [hx]))
    have hr : r.style = [] := h r (by simp)
    have hstr : r.str = .ok r.text := by
      unfold Run.str
      split
      · rename_i he; simp [List.isEmpty_iff.1 he]; rfl
      · rw [hr, htmlClose_nil]
        show (Except.ok (htmlOpen [] ++ r.text ++ []) : M Str) = Except.ok r.text
        simp [htmlOpen, sjoin]
    refine ⟨if r.text.isEmpty then ss else r.text :: ss, ?_, ?_⟩
    · simp only [runStrs, hstr, hs, ok_bind]; rfl
    · by_cases he : r.text.isEmpty
      · simp [he, hj, sjoin, List.isEmpty_iff.1 he]
      · simp [he, hj, sjoin]

/-- **html off:** `"".join(par.run_strings)` is the concatenation of the run texts -/
theorem plain_of_unstyled (p : Par) (h : p.unstyled) : ∃ ss, p.runStrings = .ok ss ∧ sjoin ss = parText p := by
  obtain ⟨ss, hs, hj⟩ := runStrs_unstyled p.runs h.2
  refine ⟨ss, ?_, hj⟩
  unfold Par.runStrings
  simp [hs, ok_bind, h.1]

/-- with html off every formatting list is empty -/
theorem formatPr_off (pr : Dict Str (Option Str)) : formatPr false pr = [] := rfl

theorem runFormatting_off (r : Xml) (st : List Str) (h : runFormatting false r = .ok st) : st = [] := by
  unfold runFormatting at h
  obtain ⟨d, _, h⟩ := bind_ok h
  exact (pure_ok h).symm

theorem parFormatting_off (p : Xml) (st : List Str) (h : parFormatting false p = .ok st) : st = [] := by
  unfold parFormatting at h
  obtain ⟨d, _, h⟩ := bind_ok h
  exact (pure_ok h).symm

end D2P
