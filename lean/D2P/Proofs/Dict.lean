import D2P.Model.Py
/-!
# Lemmas about the association-list model of Python dicts
-/
namespace D2P

variable {κ ν : Type} [BEq κ] [LawfulBEq κ]

theorem Dict.get?_cons (a : κ × ν) (d : Dict κ ν) (k : κ) :
    Dict.get? (a :: d) k = if a.1 == k then some a.2 else Dict.get? d k := by
  unfold Dict.get?
  simp only [List.find?_cons]
  split <;> simp_all

theorem Dict.get?_map_set (d : Dict κ ν) (k k' : κ) (v : ν) :
    Dict.get? (d.map (fun kv => if kv.1 == k then (kv.1, v) else kv)) k' =
      if k' == k then (Dict.get? d k').map (fun _ => v) else Dict.get? d k' := by
  induction d with
  | nil => simp [Dict.get?]
  | cons a d ih =>
    simp only [List.map_cons, Dict.get?_cons, ih]
    by_cases hak : a.1 == k
    · have e : a.1 = k := by simpa using hak
      by_cases hk' : k' == k
      · have e' : k' = k := by simpa using hk'
        subst e'; simp [hak, e]
      · have : ¬ (a.1 == k') = true := by rw [e]; intro h; apply hk'; simpa using (by simpa using h : k = k').symm
        simp [hak, hk', this]
    · by_cases hk' : k' == k
      · have e' : k' = k := by simpa using hk'
        subst e'; simp [hak]
      · simp only [hak, Bool.false_eq_true, if_false, hk']

theorem Dict.get?_append_single (d : Dict κ ν) (k k' : κ) (v : ν) :
    Dict.get? (d ++ [(k, v)]) k' = (match Dict.get? d k' with | some x => some x | none => if k == k' then some v else none) := by
  induction d with
  | nil => simp [Dict.get?_cons, Dict.get?]
  | cons a d ih =>
    simp only [List.cons_append, Dict.get?_cons, ih]
    by_cases h : a.1 == k' <;> simp [h]

theorem Dict.any_iff (d : Dict κ ν) (k : κ) : d.any (fun x => x.1 == k) = (Dict.get? d k).isSome := by
  induction d with
  | nil => simp [Dict.get?]
  | cons a d ih =>
    simp only [List.any_cons, Dict.get?_cons, ih]
    by_cases h : a.1 == k <;> simp [h]

theorem Dict.get?_set_eq (d : Dict κ ν) (k : κ) (v : ν) : (Dict.set d k v).get? k = some v := by
  unfold Dict.set
  split
  · rename_i h
    rw [Dict.any_iff] at h
    rw [Dict.get?_map_set]
    simp only [beq_self_eq_true, if_true]
    cases hg : Dict.get? d k with
    | none => simp [hg] at h
    | some x => rfl
  · rename_i h
    rw [Dict.any_iff] at h
    rw [Dict.get?_append_single]
    cases hg : Dict.get? d k with
    | none => simp
    | some x => simp [hg] at h

theorem Dict.get?_set_ne (d : Dict κ ν) (k k' : κ) (v : ν) (hne : k' ≠ k) : (Dict.set d k v).get? k' = Dict.get? d k' := by
  unfold Dict.set
  have h1 : ¬ (k' == k) = true := by simpa using hne
  have h2 : ¬ (k == k') = true := by simpa using fun e => hne e.symm
  split
  · rw [Dict.get?_map_set]; simp [h1]
  · rw [Dict.get?_append_single]
    cases Dict.get? d k' <;> simp [h2]

theorem Dict.get?_delWhere (d : Dict κ ν) (p : κ → Bool) (k : κ) :
    (Dict.delWhere d p).get? k = if p k then none else Dict.get? d k := by
  unfold Dict.delWhere
  induction d with
  | nil => simp [Dict.get?]
  | cons a d ih =>
    simp only [List.filter_cons]
    by_cases hp : p a.1
    · simp only [hp, Bool.not_true, Bool.false_eq_true, if_false, ih, Dict.get?_cons]
      by_cases hak : a.1 == k
      · have e : a.1 = k := by simpa using hak
        simp [hak, ← e, hp]
      · simp [hak]
    · simp only [hp, Bool.not_false, if_true, Dict.get?_cons, ih]
      by_cases hak : a.1 == k
      · have e : a.1 = k := by simpa using hak
        simp [hak, ← e, hp]
      · simp [hak]

end D2P
