import D2P.Proofs.Styled
/-!
# Every style string the formatter produces can be closed

`html_close` takes the first word of each style string (`x.split()[0]`) and raises `IndexError`
when there is none. `formatPr_ok`: every string `_format_Pr_into_html` returns starts with a
non-blank character, hence has a first word — for every property dict and both modes. The proof
reads the formatter table regenerated from `/repo` (`Gen.formatters`): the three `decide`s below
re-check it on every run.
-/
namespace D2P

def okStyle (st : Str) : Prop := ∃ w, firstWord st = .ok w
def okStyles (l : List Str) : Prop := ∀ st ∈ l, okStyle st

/-- starts with a character that is not Python whitespace -/
def headOKb : Str → Bool
  | ch :: _ => !isPyWs ch
  | [] => false

theorem okStyle_of_head (x : Str) (h : headOKb x = true) : okStyle x := by
  cases x with
  | nil => simp [headOKb] at h
  | cons ch rest =>
    simp only [headOKb, Bool.not_eq_true'] at h
    refine ⟨ch :: rest.takeWhile (fun c => !isPyWs c), ?_⟩
    unfold firstWord
    simp [List.dropWhile, List.takeWhile, h, pure, Except.pure]

theorem headOKb_append (a b : Str) (h : headOKb a = true) : headOKb (a ++ b) = true := by
  cases a with
  | nil => simp [headOKb] at h
  | cons c cs => simpa [headOKb] using h

/-- what the table must satisfy for formatters whose string is emitted on its own -/
def plainOK (f : Gen.Formatter) : Bool :=
  f.container.isSome || f.property.isSome ||
  match f.kind with
  | .tagItself => headOKb (lit f.key)
  | .const s => headOKb (lit s)
  | .valPrefix3 => f.key == "vertAlign"
  | .wrapVal pre _ => headOKb (lit pre)
  | .headingLevel => true

def containerOK (f : Gen.Formatter) : Bool :=
  match f.container with | some c => headOKb (lit c) | none => true

theorem table_plain_ok : Gen.formatters.all plainOK = true := by decide
theorem table_container_ok : Gen.formatters.all containerOK = true := by decide
theorem vertAlign_not_toggle : (Gen.toggleProperties.any fun t => lit t == lit "vertAlign") = false := by decide

theorem lookupFormatter_mem (tag : Str) (f : Gen.Formatter) (h : lookupFormatter tag = some f) :
    f ∈ Gen.formatters ∧ lit f.key = tag := by
  unfold lookupFormatter at h
  exact ⟨List.mem_of_find?_eq_some h, by have := List.find?_some h; simpa using this⟩

theorem mem_insertStr (x y : Str) : ∀ l : List Str, y ∈ insertStr x l → y = x ∨ y ∈ l
  | [], h => by simp [insertStr] at h; exact Or.inl h
  | z :: zs, h => by
    simp only [insertStr] at h
    split at h
    · rcases List.mem_cons.1 h with h | h
      · exact Or.inl h
      · exact Or.inr h
    · rcases List.mem_cons.1 h with h | h
      · exact Or.inr (by simp [h])
      · rcases mem_insertStr x y zs h with h | h
        · exact Or.inl h
        · exact Or.inr (List.mem_cons_of_mem _ h)

theorem mem_sortStrs (y : Str) : ∀ l : List Str, y ∈ sortStrs l → y ∈ l
  | [], h => by simp [sortStrs] at h
  | x :: xs, h => by
    simp only [sortStrs] at h
    rcases mem_insertStr x y _ h with h | h
    · simp [h]
    · exact List.mem_cons_of_mem _ (mem_sortStrs y xs h)

/-- a rendered property comes from a formatter of the table that matched its tag and is not switched off -/
theorem mem_renderedProps (pr : Dict Str (Option Str)) (h : Gen.Formatter × Str) (hm : h ∈ renderedProps pr) :
    ∃ kv ∈ pr, lookupFormatter kv.1 = some h.1 ∧ isSwitchedOff kv.1 kv.2 = false ∧ h.2 = h.1.kind.apply kv.1 (kv.2.getD []) := by
  unfold renderedProps at hm
  obtain ⟨kv, hkv, he⟩ := List.mem_filterMap.1 hm
  refine ⟨kv, hkv, ?_⟩
  cases hl : lookupFormatter kv.1 with
  | none => simp [hl] at he
  | some f =>
    simp only [hl] at he
    by_cases hs : isSwitchedOff kv.1 kv.2 = true
    · simp [hs] at he
    · have hs' : isSwitchedOff kv.1 kv.2 = false := by simpa using hs
      simp only [hs', Bool.false_eq_true, if_false, Option.some.injEq] at he
      subst he
      exact ⟨rfl, hs', rfl⟩

theorem formatPr_ok (html : Bool) (pr : Dict Str (Option Str)) : okStyles (formatPr html pr) := by
  unfold formatPr
  cases html with
  | false => intro st hst; simp at hst
  | true =>
    simp only [Bool.not_true, Bool.false_eq_true, if_false]
    intro st hst
    rcases List.mem_append.1 hst with hst | hst
    · -- a span: "<container> <property>=..."
      obtain ⟨c, hc, rfl⟩ := List.mem_map.1 hst
      apply okStyle_of_head
      rw [List.append_assoc]
      apply headOKb_append
      -- `c` is the container name of one of the hits
      have hc1 : c ∈ ((groupKeys (renderedProps pr)).map (·.1)) := List.mem_eraseDups.1 hc
      obtain ⟨k, hk, rfl⟩ := List.mem_map.1 hc1
      -- keys come from hits by filterMap, eraseDups and an insertion sort: membership is preserved
      have hk' : ∃ h ∈ renderedProps pr, ∃ cc pp, h.1.container = some cc ∧ h.1.property = some pp ∧ k = (lit cc, lit pp) := by
        unfold groupKeys at hk
        -- generalise the fold: every element of the result is one of the keys
        have key : ∀ (ks acc : List (Str × Str)) (z : Str × Str),
            z ∈ ks.foldr (fun x acc => (acc.takeWhile (fun y => strLt y.1 x.1 || (y.1 == x.1 && strLt y.2 x.2))) ++ [x] ++ (acc.dropWhile (fun y => strLt y.1 x.1 || (y.1 == x.1 && strLt y.2 x.2)))) acc →
            z ∈ ks ∨ z ∈ acc := by
          intro ks
          induction ks with
          | nil => intro acc z hz; exact Or.inr hz
          | cons x xs ih =>
            intro acc z hz
            simp only [List.foldr_cons] at hz
            rcases List.mem_append.1 hz with hz | hz
            · rcases List.mem_append.1 hz with hz | hz
              · rcases ih acc z ((List.takeWhile_prefix _).subset hz) with h | h
                · exact Or.inl (List.mem_cons_of_mem _ h)
                · exact Or.inr h
              · simp at hz; exact Or.inl (by simp [hz])
            · rcases ih acc z ((List.dropWhile_suffix _).subset hz) with h | h
              · exact Or.inl (List.mem_cons_of_mem _ h)
              · exact Or.inr h
        rcases key _ [] k hk with h | h
        · have h := List.mem_eraseDups.1 h
          obtain ⟨hh, hhm, he⟩ := List.mem_filterMap.1 h
          cases hcn : hh.1.container with
          | none => simp [hcn] at he
          | some cc =>
            cases hpp : hh.1.property with
            | none => simp [hcn, hpp] at he
            | some pp =>
              simp only [hcn, hpp, Option.some.injEq] at he
              exact ⟨hh, hhm, cc, pp, hcn, hpp, he.symm⟩
        · simp at h
      obtain ⟨h, hh, cc, pp, hcn, _, rfl⟩ := hk'
      obtain ⟨kv, _, hl, _, _⟩ := mem_renderedProps pr h hh
      have hmem := (lookupFormatter_mem kv.1 h.1 hl).1
      have := List.all_eq_true.1 table_container_ok h.1 hmem
      simpa [containerOK, hcn] using this
    · -- a plain tag
      have hst := mem_sortStrs st _ hst
      obtain ⟨h, hh, he⟩ := List.mem_filterMap.1 hst
      by_cases hcp : (h.1.container.isNone && h.1.property.isNone) = true
      · simp only [hcp, if_true, Option.some.injEq] at he
        subst he
        obtain ⟨kv, _, hl, hoff, hv⟩ := mem_renderedProps pr h hh
        obtain ⟨hmem, hkey⟩ := lookupFormatter_mem kv.1 h.1 hl
        have hp := List.all_eq_true.1 table_plain_ok h.1 hmem
        simp only [Bool.and_eq_true, Option.isNone_iff_eq_none] at hcp
        simp only [plainOK, hcp.1, hcp.2, Option.isSome_none, Bool.false_or] at hp
        apply okStyle_of_head
        rw [hv]
        cases hk : h.1.kind with
        | tagItself => simp only [hk] at hp; simp only [Gen.FmtKind.apply]; rw [← hkey]; exact hp
        | const s => simp only [hk] at hp; simpa only [Gen.FmtKind.apply] using hp
        | valPrefix3 =>
          simp only [hk, beq_iff_eq] at hp
          have hkv : kv.1 = lit "vertAlign" := by rw [← hkey, hp]
          -- not switched off: the value is superscript or subscript
          unfold isSwitchedOff at hoff
          rw [hkv] at hoff
          simp only [vertAlign_not_toggle, Bool.false_eq_true, if_false] at hoff
          have hu : (lit "vertAlign" == lit "u") = false := by decide
          simp only [hu, Bool.false_eq_true, if_false, beq_self_eq_true, if_true, Bool.not_eq_false',
            Bool.or_eq_true, beq_iff_eq] at hoff
          simp only [Gen.FmtKind.apply]
          rcases hoff with hoff | hoff <;> rw [hoff] <;> decide
        | wrapVal pre post =>
          simp only [hk] at hp
          simp only [Gen.FmtKind.apply]
          rw [List.append_assoc]; exact headOKb_append _ _ hp
        | headingLevel => simp [Gen.FmtKind.apply, headOKb, isPyWs]
      · simp [hcp] at he

theorem runFormatting_ok (html : Bool) (x : Xml) (st : List Str) (h : runFormatting html x = .ok st) : okStyles st := by
  unfold runFormatting at h
  obtain ⟨d, _, h⟩ := bind_ok h
  have := pure_ok h; subst this; exact formatPr_ok html d

theorem parFormatting_ok (html : Bool) (x : Xml) (st : List Str) (h : parFormatting html x = .ok st) : okStyles st := by
  unfold parFormatting at h
  obtain ⟨d, _, h⟩ := bind_ok h
  have := pure_ok h; subst this; exact formatPr_ok html _

theorem okSpec (html : Bool) : StyleSpec html okStyles :=
  ⟨by intro st h; simp at h, parFormatting_ok html, runFormatting_ok html⟩

end D2P
