import D2P.Proofs.MergeLevel
import D2P.Check.Merge
/-!
# `merge_elems` on a whole tree: the result is a fixed point

Hypotheses on the input tree (`G`): element identities are distinct, every namespace is written with
one prefix, and nothing mergeable lies at or below a property child (`<w:rPr>`, `<w:pPr>` … : the child whose tag
is the parent's tag followed by `Pr`). The driver evaluates `G` (as `goodTree`) on every generated
part. Under `G`:

* `mergeFuel_fp`: whatever fuel sufficed, the merged tree `y` satisfies `fpT` — at every node the
  children are a fixed point of `mergeLevel` — and keeps identity, tag, content flag and merge key;
* `fp_fixed` / `mergeElems_idem`: merging the merged tree again returns it unchanged.
-/
namespace D2P

theorem descL_append : ∀ (a b : List Xml), descL (a ++ b) = descL a ++ descL b
  | [], b => by simp [descL]
  | x :: a, b => by simp only [List.cons_append, descL, descL_append a b, List.append_assoc]

theorem descL_sublist {l' l : List Xml} (h : l'.Sublist l) : (descL l').Sublist (descL l) := by
  induction h with
  | slnil => exact List.Sublist.refl _
  | cons a _ ih => simp only [descL]; exact ih.trans (List.sublist_append_right _ _)
  | cons_cons a _ ih => simp only [descL]; exact List.Sublist.append (List.Sublist.refl _) ih

theorem descT_of_elem (x : Xml) (h : x.isElem = true) : descT x = x :: descL x.kids := by
  cases x <;> simp_all [descT, Xml.isElem, Xml.kids]

theorem descT_of_nonelem (x : Xml) (h : x.isElem = false) : descT x = [] := by
  cases x <;> simp_all [descT, Xml.isElem]

theorem mem_descL_self (l : List Xml) (r : Xml) (hr : r ∈ l) (he : r.isElem = true) : r ∈ descL l := by
  have : (descL [r]).Sublist (descL l) := descL_sublist (List.singleton_sublist.2 hr)
  apply this.subset
  simp [descL, descT_of_elem r he]

theorem desc_kids_sublist : ∀ (rest : List Xml), (descL (rest.flatMap Xml.kids)).Sublist (descL rest) := by
  intro rest
  induction rest with
  | nil => exact List.Sublist.refl _
  | cons r rest ih =>
    simp only [List.flatMap_cons, descL_append, descL]
    cases he : r.isElem with
    | true =>
      rw [descT_of_elem r he]
      exact List.Sublist.cons _ (List.Sublist.append (List.Sublist.refl _) ih)
    | false =>
      have : r.kids = [] := by cases r <;> simp_all [Xml.isElem, Xml.kids]
      rw [this, descT_of_nonelem r he]
      simpa [descL] using ih

/-- nothing mergeable at or below the property child of a node -/
def PrCleanNode (e : Xml) : Prop := ∀ c ∈ e.kids, endsPr c.localname = true → noMergeT c = true

theorem endsPr_append (n : Str) : endsPr (n ++ lit "Pr") = true := by
  unfold endsPr lit
  simp [List.reverse_append]

theorem localname_of_tag (c : Xml) (q : QName) (h : c.tag? = some q) : c.localname = q.name := by
  cases c <;> simp_all [Xml.tag?, Xml.localname]

/-- the hypotheses on (a list of) input trees -/
def G (l : List Xml) : Prop :=
  ((descL l).filterMap Xml.id?).Nodup ∧
  (∀ a ∈ descL l, ∀ b ∈ descL l, a.tag? = b.tag? → a.ptag = b.ptag) ∧
  (∀ e ∈ descL l, PrCleanNode e)

theorem G_sublist {l' l : List Xml} (h : l'.Sublist l) (g : G l) : G l' := by
  have hs := descL_sublist h
  exact ⟨List.Nodup.sublist (List.Sublist.filterMap _ hs) g.1,
    fun a ha b hb => g.2.1 a (hs.subset ha) b (hs.subset hb),
    fun e he => g.2.2 e (hs.subset he)⟩

theorem G_kids (x : Xml) (g : G [x]) : G x.kids := by
  cases he : x.isElem with
  | true =>
    have hs : (descL x.kids).Sublist (descL [x]) := by
      simp only [descL, descT_of_elem x he, List.append_nil]
      exact List.sublist_cons_self _ _
    exact ⟨List.Nodup.sublist (List.Sublist.filterMap _ hs) g.1,
      fun a ha b hb => g.2.1 a (hs.subset ha) b (hs.subset hb),
      fun e he' => g.2.2 e (hs.subset he')⟩
  | false =>
    have : x.kids = [] := by cases x <;> simp_all [Xml.isElem, Xml.kids]
    rw [this]
    exact ⟨by simp [descL], by simp [descL], by simp [descL]⟩

theorem kids_ids_sublist : ∀ (ks : List Xml), (ks.filterMap Xml.id?).Sublist ((descL ks).filterMap Xml.id?) := by
  intro ks
  induction ks with
  | nil => exact List.Sublist.refl _
  | cons k ks ih =>
    cases he : k.isElem with
    | true =>
      obtain ⟨i, hi⟩ := isElem_id k he
      simp only [descL, descT_of_elem k he, List.filterMap_cons, hi, List.cons_append, List.filterMap_append]
      exact List.Sublist.cons_cons _ (ih.trans (List.sublist_append_right _ _))
    | false =>
      have hi : k.id? = none := by cases k <;> simp_all [Xml.isElem, Xml.id?]
      simp only [descL, descT_of_nonelem k he, List.nil_append, List.filterMap_cons, hi]
      exact ih

theorem G_nodup_kids (ks : List Xml) (g : G ks) : (ks.filterMap Xml.id?).Nodup :=
  List.Nodup.sublist (kids_ids_sublist ks) g.1

theorem ptag_of_nonelem (x : Xml) (h : x.isElem = false) : x.ptag = lit "None:FAILED-uuid" := by
  cases x <;> simp_all [Xml.isElem, Xml.ptag]

theorem tag_none_iff (x : Xml) : x.tag? = none ↔ x.isElem = false := by
  cases x <;> simp [Xml.tag?, Xml.isElem]

theorem G_prefix (ks : List Xml) (g : G ks) : PrefixConsistent ks := by
  intro x hx y hy ht
  cases hex : x.isElem with
  | true =>
    cases hey : y.isElem with
    | true => exact g.2.1 x (mem_descL_self ks x hx hex) y (mem_descL_self ks y hy hey) ht
    | false =>
      have := (tag_none_iff y).2 hey
      rw [this] at ht
      have := (tag_none_iff x).1 ht
      rw [this] at hex; cases hex
  | false =>
    have h1 := (tag_none_iff x).2 hex
    rw [h1] at ht
    have hey := (tag_none_iff y).1 ht.symm
    rw [ptag_of_nonelem x hex, ptag_of_nonelem y hey]

/-- the element that replaces a merging group satisfies the hypotheses again -/
theorem G_merged (first : Xml) (rest : List Xml) (g : G (first :: rest)) (he : first.isElem = true)
    (ht : ∀ r ∈ rest, r.isElem = true → r.tag? = first.tag?) : G [mergedOf (first :: rest)] := by
  cases first with
  | comment _ _ => simp [Xml.isElem] at he
  | pi _ => simp [Xml.isElem] at he
  | elem i p t m a tx tl ks =>
    have hmg : mergedOf (Xml.elem i p t m a tx tl ks :: rest) =
        Xml.elem i p t m a (newTextOf (Xml.elem i p t m a tx tl ks :: rest)) tl (ks ++ rest.flatMap Xml.kids) := rfl
    rw [hmg]
    generalize newTextOf (Xml.elem i p t m a tx tl ks :: rest) = nt
    have hd : descL [Xml.elem i p t m a nt tl (ks ++ rest.flatMap Xml.kids)] =
        Xml.elem i p t m a nt tl (ks ++ rest.flatMap Xml.kids) :: (descL ks ++ descL (rest.flatMap Xml.kids)) := by
      simp [descL, descT, descL_append]
    have hd0 : descL (Xml.elem i p t m a tx tl ks :: rest) = Xml.elem i p t m a tx tl ks :: (descL ks ++ descL rest) := by
      simp [descL, descT]
    have hsub : (descL ks ++ descL (rest.flatMap Xml.kids)).Sublist (descL ks ++ descL rest) :=
      List.Sublist.append (List.Sublist.refl _) (desc_kids_sublist rest)
    have hptag : (Xml.elem i p t m a nt tl (ks ++ rest.flatMap Xml.kids)).ptag = (Xml.elem i p t m a tx tl ks).ptag := by
      cases p <;> rfl
    obtain ⟨g1, g2, g3⟩ := g
    rw [hd0] at g1 g2 g3
    refine ⟨?_, ?_, ?_⟩
    · rw [hd]
      simp only [List.filterMap_cons, Xml.id?] at g1 ⊢
      exact List.Nodup.sublist (List.Sublist.cons_cons _ (List.Sublist.filterMap _ hsub)) g1
    · -- every node of the merged tree has a node of the group with the same tag and prefixed tag
      have key : ∀ a' ∈ descL [Xml.elem i p t m a nt tl (ks ++ rest.flatMap Xml.kids)],
          ∃ b' ∈ Xml.elem i p t m a tx tl ks :: (descL ks ++ descL rest), b'.tag? = a'.tag? ∧ b'.ptag = a'.ptag := by
        intro a' ha'
        rw [hd] at ha'
        rcases List.mem_cons.1 ha' with rfl | ha'
        · exact ⟨Xml.elem i p t m a tx tl ks, List.mem_cons_self .., rfl, hptag.symm⟩
        · exact ⟨a', List.mem_cons_of_mem _ (hsub.subset ha'), rfl, rfl⟩
      intro a' ha' b' hb' hab
      obtain ⟨a2, ha2, ta, pa⟩ := key a' ha'
      obtain ⟨b2, hb2, tb, pb⟩ := key b' hb'
      rw [← pa, ← pb]
      exact g2 a2 ha2 b2 hb2 (by rw [ta, tb, hab])
    · intro e hemem
      rw [hd] at hemem
      rcases List.mem_cons.1 hemem with rfl | hemem
      · intro c hc hct
        simp only [Xml.kids, List.mem_append] at hc
        rcases hc with hc | hc
        · exact g3 (Xml.elem i p t m a tx tl ks) (List.mem_cons_self ..) c hc hct
        · obtain ⟨r, hr, hcr⟩ := List.mem_flatMap.1 hc
          have her : r.isElem = true := by
            cases r <;> simp_all [Xml.isElem, Xml.kids]
          have hrm : r ∈ descL rest := mem_descL_self rest r hr her
          exact g3 r (by simp [hrm]) c hcr hct
      · exact g3 e (List.mem_cons_of_mem _ (hsub.subset hemem))

/-! ## fixed points -/

mutual
/-- at every node the children list is a fixed point of `mergeLevel` -/
def fpT (cfg : PartCfg) : Xml → Prop
  | .elem _ _ _ _ _ _ _ ks => mergeLevel cfg ks = .ok ks ∧ fpL cfg ks
  | _ => True
def fpL (cfg : PartCfg) : List Xml → Prop
  | [] => True
  | k :: ks => fpT cfg k ∧ fpL cfg ks
end

theorem fpL_mem (cfg : PartCfg) : ∀ (ks : List Xml), fpL cfg ks → ∀ k ∈ ks, fpT cfg k
  | [], _, k, hk => by simp at hk
  | x :: ks, h, k, hk => by
    simp only [fpL] at h
    rcases List.mem_cons.1 hk with rfl | hk
    · exact h.1
    · exact fpL_mem cfg ks h.2 k hk

theorem fpL_of_mem (cfg : PartCfg) : ∀ (ks : List Xml), (∀ k ∈ ks, fpT cfg k) → fpL cfg ks
  | [], _ => by simp [fpL]
  | x :: ks, h => by
    simp only [fpL]
    exact ⟨h x (by simp), fpL_of_mem cfg ks (fun k hk => h k (by simp [hk]))⟩

theorem height_le_heightL : ∀ (ks : List Xml) (k : Xml), k ∈ ks → k.height ≤ Xml.heightL ks
  | [], k, hk => by simp at hk
  | x :: ks, k, hk => by
    simp only [Xml.heightL]
    rcases List.mem_cons.1 hk with rfl | hk
    · exact Nat.le_max_left _ _
    · exact Nat.le_trans (height_le_heightL ks k hk) (Nat.le_max_right _ _)

theorem mapM'_self (F : Xml → M Xml) : ∀ (l : List Xml), (∀ k ∈ l, F k = .ok k) → mapM' F l = .ok l
  | [], _ => rfl
  | x :: l, h => by
    simp only [mapM', h x (by simp), ok_bind, mapM'_self F l (fun k hk => h k (by simp [hk]))]
    rfl

/-- a fixed point is returned unchanged, whatever fuel (beyond its height) is given -/
theorem fp_fixed (cfg : PartCfg) : ∀ (f : Nat) (x : Xml), fpT cfg x → x.height < f → mergeFuel cfg f x = .ok x := by
  intro f
  induction f with
  | zero => intro x _ h; omega
  | succ f ih =>
    intro x hx hh
    cases x with
    | comment _ _ => rfl
    | pi _ => rfl
    | elem i p t m a tx tl ks =>
      simp only [fpT] at hx
      simp only [Xml.height] at hh
      simp only [mergeFuel, hx.1, ok_bind]
      rw [mapM'_self]
      · rfl
      · intro k hk
        apply ih k (fpL_mem cfg ks hx.2 k hk)
        have := height_le_heightL ks k hk
        omega

/-! ## the recursion -/

def getOr (F : Xml → M Xml) (x : Xml) : Xml :=
  match F x with
  | .ok y => y
  | .error _ => x

theorem mapM'_ok (F : Xml → M Xml) : ∀ (l l' : List Xml), mapM' F l = .ok l' →
    l' = l.map (getOr F) ∧ ∀ a ∈ l, F a = .ok (getOr F a) := by
  intro l
  induction l with
  | nil => intro l' h; simp only [mapM'] at h; have := pure_ok h; subst this; exact ⟨rfl, by simp⟩
  | cons x l ih =>
    intro l' h
    simp only [mapM'] at h
    obtain ⟨y, hy, h⟩ := bind_ok h
    obtain ⟨ys, hys, h⟩ := bind_ok h
    have := pure_ok h; subst this
    obtain ⟨e, hall⟩ := ih ys hys
    have hg : getOr F x = y := by simp [getOr, hy]
    refine ⟨by simp [hg, e], ?_⟩
    intro a ha
    rcases List.mem_cons.1 ha with rfl | ha
    · rw [hg]; exact hy
    · exact hall a ha

theorem groupAdj_map (φ : Xml → Xml) : ∀ (kc : List (ElemKey × Xml)),
    groupAdj (kc.map fun p => (p.1, φ p.2)) = (groupAdj kc).map (List.map φ) := by
  intro kc
  induction kc with
  | nil => rfl
  | cons x rest ih =>
    obtain ⟨k, a⟩ := x
    cases rest with
    | nil => simp [groupAdj]
    | cons y rest' =>
      obtain ⟨k', b⟩ := y
      simp only [List.map_cons] at ih ⊢
      rw [groupAdj_step, groupAdj_step, ih]
      cases hG : groupAdj ((k', b) :: rest') with
      | nil => exact absurd hG (groupAdj_ne_nil _ _)
      | cons g gs =>
        simp only [List.map_cons]
        split <;> simp

theorem merges_map (φ : Xml → Xml) (g : List Xml) (h : ∀ x ∈ g, isMergeable (φ x) = isMergeable x) :
    merges (g.map φ) = merges g := by
  cases g with
  | nil => rfl
  | cons a t =>
    simp only [List.map_cons, merges, h a (by simp)]
    cases t <;> rfl

theorem hasContentL_iff : ∀ (l : List Xml), hasContentL l = true ↔ ∃ k ∈ l, hasContent k = true
  | [] => by simp [hasContentL]
  | x :: l => by
    simp only [hasContentL, Bool.or_eq_true, hasContentL_iff l, List.mem_cons]
    constructor
    · rintro (h | ⟨k, hk, h⟩)
      · exact ⟨x, Or.inl rfl, h⟩
      · exact ⟨k, Or.inr hk, h⟩
    · rintro ⟨k, rfl | hk, h⟩
      · exact Or.inl h
      · exact Or.inr ⟨k, hk, h⟩

/-- what the recursion keeps of a node -/
structure Same (cfg : PartCfg) (x y : Xml) : Prop where
  content : hasContent y = hasContent x
  key : elemKey cfg y = elemKey cfg x
  tag : y.tag? = x.tag?
  ptag : y.ptag = x.ptag
  fix : noMergeT x = true → y = x

theorem same_refl (cfg : PartCfg) (x : Xml) : Same cfg x x := ⟨rfl, rfl, rfl, rfl, fun _ => rfl⟩

theorem mergeable_is_content : ∀ t ∈ mergeableTagsL, contentTagsL.contains t = true := by decide +kernel

theorem isMergeable_content (x : Xml) (h : isMergeable x = true) : isContentTag x = true := by
  unfold isMergeable at h; unfold isContentTag
  exact mergeable_is_content _ (List.contains_iff_mem.1 h)

mutual
theorem noMerge_of_contentless : ∀ (x : Xml), hasContent x = false → noMergeT x = true
  | .elem i p t m a tx tl ks, h => by
    simp only [hasContent, Bool.or_eq_false_iff] at h
    have : isMergeable (Xml.elem i p t m a tx tl ks) = false := by
      cases hm : isMergeable (Xml.elem i p t m a tx tl ks) with
      | false => rfl
      | true => rw [isMergeable_content _ hm] at h; cases h.1
    simp only [noMergeT, this, Bool.not_false, Bool.true_and]
    exact noMergeL_of_contentless ks h.2
  | .comment _ _, _ => rfl
  | .pi _, _ => rfl
theorem noMergeL_of_contentless : ∀ (ks : List Xml), hasContentL ks = false → noMergeL ks = true
  | [], _ => rfl
  | k :: ks, h => by
    simp only [hasContentL, Bool.or_eq_false_iff] at h
    simp only [noMergeL, noMerge_of_contentless k h.1, noMergeL_of_contentless ks h.2, Bool.and_self]
end

theorem noMergeL_mem : ∀ (ks : List Xml), noMergeL ks = true → ∀ k ∈ ks, noMergeT k = true
  | [], _, k, hk => by simp at hk
  | x :: ks, h, k, hk => by
    simp only [noMergeL, Bool.and_eq_true] at h
    rcases List.mem_cons.1 hk with rfl | hk
    · exact h.1
    · exact noMergeL_mem ks h.2 k hk

theorem noMergeT_self (x : Xml) (h : noMergeT x = true) : isMergeable x = false := by
  cases x with
  | elem i p t m a tx tl ks => simp only [noMergeT, Bool.and_eq_true, Bool.not_eq_true'] at h; exact h.1
  | comment _ _ => rfl
  | pi _ => rfl

theorem find_congr' {P Q : Xml → Bool} : ∀ (l : List Xml), (∀ a ∈ l, P a = Q a) → l.find? P = l.find? Q
  | [], _ => rfl
  | x :: l, h => by
    simp only [List.find?_cons, h x (by simp), find_congr' l (fun a ha => h a (by simp [ha]))]

/-- **the recursion**: under `G`, the merged tree is a fixed point at every node, and every node
keeps its tag, content flag and merge key -/
theorem mergeFuel_fp (cfg : PartCfg) : ∀ (f : Nat) (x y : Xml), G [x] → mergeFuel cfg f x = .ok y →
    fpT cfg y ∧ Same cfg x y := by
  intro f
  induction f with
  | zero => intro x y _ h; simp [mergeFuel] at h
  | succ f ih =>
    intro x y g h
    cases x with
    | comment c tl => simp only [mergeFuel] at h; have := pure_ok h; subst this; exact ⟨trivial, same_refl _ _⟩
    | pi tl => simp only [mergeFuel] at h; have := pure_ok h; subst this; exact ⟨trivial, same_refl _ _⟩
    | elem i p t m a tx tl ks =>
      simp only [mergeFuel] at h
      obtain ⟨ks1, h1, h⟩ := bind_ok h
      obtain ⟨ks2, h2, h⟩ := bind_ok h
      have := pure_ok h; subst this
      have gk : G ks := G_kids _ g
      have hn := G_nodup_kids ks gk
      have hpc := G_prefix ks gk
      obtain ⟨gs, hr, hf, hall, hfold, f1, f3, f4, hruns', hok⟩ := merged_level cfg ks ks1 hn hpc h1
      have hsub : ∀ g0 ∈ gs, ∀ x ∈ g0, x ∈ ks ∧ hasContent x = true := by
        intro g0 hg0 x hx
        have : x ∈ ks.filter hasContent := by rw [← hf]; exact List.mem_flatten.2 ⟨g0, hg0, hx⟩
        exact List.mem_filter.1 this
      -- every child that is recursed into satisfies the hypotheses
      have gk1 : ∀ k1 ∈ ks1, G [k1] := by
        intro k1 hk1
        rcases f3 k1 hk1 with hin | ⟨g0, hg0, hmg, e⟩
        · exact G_sublist (List.singleton_sublist.2 hin) gk
        · subst e
          obtain ⟨a0, t0, rfl, hom⟩ := runs_homog _ _ hr g0 hg0
          have hsl : (a0 :: t0).Sublist ks := by
            have h1 : (a0 :: t0).Sublist gs.flatten := List.sublist_flatten_of_mem hg0
            rw [hf] at h1
            exact h1.trans List.filter_sublist
          have hea : a0.isElem = true := hasContent_isElem a0 (hsub _ hg0 a0 (by simp)).2
          apply G_merged a0 t0 (G_sublist hsl gk) hea
          intro r hr' her
          have ka := hall a0 (List.mem_filter.2 (hsub _ hg0 a0 (by simp)))
          have kr := hall r (List.mem_filter.2 (hsub _ hg0 r (by simp [hr'])))
          rw [hom r hr'] at kr
          exact key_tag_eq cfg r a0 _ kr ka her hea
      obtain ⟨e2, hM⟩ := mapM'_ok (mergeFuel cfg f) ks1 ks2 h2
      subst e2
      have hS : ∀ a ∈ ks1, fpT cfg (getOr (mergeFuel cfg f) a) ∧ Same cfg a (getOr (mergeFuel cfg f) a) :=
        fun a ha => ih a _ (gk1 a ha) (hM a ha)
      generalize getOr (mergeFuel cfg f) = M' at hS ⊢
      have hptag : (Xml.elem i p t m a tx tl (ks1.map M')).ptag = (Xml.elem i p t m a tx tl ks).ptag := by
        cases p <;> rfl
      have hmem1 : ∀ a ∈ (gs.map repL).flatten, a ∈ ks1 := by
        intro a ha; rw [← f1] at ha; exact (List.mem_filter.1 ha).1
      refine ⟨⟨?_, ?_⟩, ⟨?_, ?_, rfl, hptag, ?_⟩⟩
      · -- this level
        unfold mergeLevel
        have c2 : (ks1.map M').filter hasContent = (ks1.filter hasContent).map M' := by
          rw [List.filter_map]
          congr 1
          apply List.filter_congr
          intro a ha; exact (hS a ha).2.content
        rw [c2, f1]
        have hκ : ∀ a ∈ (gs.map repL).flatten, keyOf cfg (M' a) = keyOf cfg a := by
          intro a ha; unfold keyOf; rw [(hS a (hmem1 a ha)).2.key]
        have hkeyed : keyed cfg (((gs.map repL).flatten).map M') =
            .ok ((tagK (keyOf cfg) (gs.map repL).flatten).map fun p => (p.1, M' p.2)) := by
          rw [keyed_of_ok]
          · congr 1
            simp only [tagK, List.map_map]
            apply List.map_congr_left
            intro a ha
            simp only [Function.comp, hκ a ha]
          · intro x hx
            obtain ⟨a, ha, rfl⟩ := List.mem_map.1 hx
            exact ⟨_, by rw [(hS a (hmem1 a ha)).2.key]; exact hok a ha⟩
        rw [hkeyed]
        simp only [ok_bind]
        rw [groupAdj_map, groupAdj_of_runs _ _ hruns']
        show Except.ok (((gs.map repL).map (List.map M')).foldl applyGroup (ks1.map M')) = Except.ok (ks1.map M')
        rw [foldl_applyGroup_noop]
        intro g'' hg''
        obtain ⟨g', hg', rfl⟩ := List.mem_map.1 hg''
        rw [merges_map]
        · obtain ⟨g0, _, rfl⟩ := List.mem_map.1 hg'; exact merges_repL g0 _ rfl
        · intro x hx
          have hx1 : x ∈ ks1 := hmem1 x (List.mem_flatten.2 ⟨g', hg', hx⟩)
          unfold isMergeable; rw [(hS x hx1).2.ptag]
      · -- the levels below
        apply fpL_of_mem
        intro k hk
        obtain ⟨a0, ha0, rfl⟩ := List.mem_map.1 hk
        exact (hS a0 ha0).1
      · -- content
        simp only [hasContent, isContentTag, hptag]
        congr 1
        apply Bool.eq_iff_iff.2
        rw [hasContentL_iff, hasContentL_iff]
        constructor
        · rintro ⟨k, hk, hc⟩
          obtain ⟨a0, ha0, rfl⟩ := List.mem_map.1 hk
          rw [(hS a0 ha0).2.content] at hc
          rcases f3 a0 ha0 with hin | ⟨g0, hg0, _, e⟩
          · exact ⟨a0, hin, hc⟩
          · obtain ⟨b0, t0, rfl, _⟩ := runs_homog _ _ hr g0 hg0
            exact ⟨b0, (hsub _ hg0 b0 (by simp)).1, (hsub _ hg0 b0 (by simp)).2⟩
        · rintro ⟨k, hk, hc⟩
          have hkf : k ∈ gs.flatten := by rw [hf]; exact List.mem_filter.2 ⟨hk, hc⟩
          obtain ⟨g0, hg0, _⟩ := List.mem_flatten.1 hkf
          obtain ⟨b0, t0, rfl, _⟩ := runs_homog _ _ hr g0 hg0
          -- the head of what replaces the group
          have : ∃ h0, h0 ∈ repL (b0 :: t0) := by
            unfold repL; split
            · exact ⟨_, List.mem_singleton.2 rfl⟩
            · exact ⟨b0, by simp⟩
          obtain ⟨h0, hh0⟩ := this
          have hh1 : h0 ∈ ks1.filter hasContent := by
            rw [f1]; exact List.mem_flatten.2 ⟨_, List.mem_map.2 ⟨_, hg0, rfl⟩, hh0⟩
          have hh2 := List.mem_filter.1 hh1
          exact ⟨M' h0, List.mem_map.2 ⟨h0, hh2.1, rfl⟩, by rw [(hS h0 hh2.1).2.content]; exact hh2.2⟩
      · -- key
        have hclean : ∀ x ∈ ks, (x.tag? == some ⟨t.ns, t.name ++ lit "Pr"⟩) = true → noMergeT x = true := by
          intro x hx hPx
          have hme : Xml.elem i p t m a tx tl ks ∈ descL [Xml.elem i p t m a tx tl ks] := by simp [descL, descT]
          have htg : x.tag? = some ⟨t.ns, t.name ++ lit "Pr"⟩ := by simpa using hPx
          exact g.2.2 _ hme x hx (by rw [localname_of_tag x _ htg]; exact endsPr_append t.name)
        have hP : TagOnly (fun k : Xml => k.tag? == some ⟨t.ns, t.name ++ lit "Pr"⟩) := by
          intro x y hxy; simp only [hxy]
        have hg : gatherPr (Xml.elem i p t m a tx tl (ks1.map M')) = gatherPr (Xml.elem i p t m a tx tl ks) := by
          rw [gatherPr_elem, gatherPr_elem]
          have e1 : (ks1.map M').find? (fun k : Xml => k.tag? == some ⟨t.ns, t.name ++ lit "Pr"⟩) =
              (ks1.find? (fun k : Xml => k.tag? == some ⟨t.ns, t.name ++ lit "Pr"⟩)).map M' := by
            rw [List.find?_map]
            congr 1
            apply find_congr'
            intro a0 ha0
            simp only [Function.comp, (hS a0 ha0).2.tag]
          have e3 : ks1.find? (fun k : Xml => k.tag? == some ⟨t.ns, t.name ++ lit "Pr"⟩) = ks.find? (fun k : Xml => k.tag? == some ⟨t.ns, t.name ++ lit "Pr"⟩) := by
            rw [← List.head?_filter, ← List.head?_filter, f4 _ hP (fun x hx hPx => noMergeT_self x (hclean x hx hPx))]
          rw [e1, e3]
          cases hfd : ks.find? (fun k : Xml => k.tag? == some ⟨t.ns, t.name ++ lit "Pr"⟩) with
          | none => rfl
          | some pr =>
            have hprm : pr ∈ ks := List.mem_of_find?_eq_some hfd
            have hprP := List.find?_some hfd
            have hpr1 : pr ∈ ks1 := by rw [hfd] at e3; exact List.mem_of_find?_eq_some e3
            have : M' pr = pr := (hS pr hpr1).2.fix (hclean pr hprm hprP)
            simp only [Option.map_some, this]
        rw [elemKey_with, elemKey_with, elemKeyWith_shell cfg i p t m a tx tx tl (ks1.map M') ks]
        congr 1
        unfold htmlFormatting runFormatting parFormatting getPStyle
        rw [hptag, hg]
      · -- nothing to do at or below a node that holds nothing mergeable
        intro hc
        simp only [noMergeT, Bool.and_eq_true] at hc
        have hcl : ∀ k ∈ ks, noMergeT k = true := noMergeL_mem ks hc.2
        have hnm : ∀ g0 ∈ gs, merges g0 = false := by
          intro g0 hg0
          obtain ⟨a0, t0, rfl, _⟩ := runs_homog _ _ hr g0 hg0
          have := noMergeT_self a0 (hcl a0 (hsub _ hg0 a0 (by simp)).1)
          simp [merges, this]
        rw [foldl_applyGroup_noop gs ks hnm] at hfold
        subst hfold
        have : ks1.map M' = ks1 := by
          conv => rhs; rw [← List.map_id ks1]
          apply List.map_congr_left
          intro a0 ha0; exact (hS a0 ha0).2.fix (hcl a0 ha0)
        rw [this]

/-- **`merge_elems` is idempotent**: under `G`, merging the merged tree returns it unchanged -/
theorem mergeElems_idem (cfg : PartCfg) (x y : Xml) (g : G [x]) (h : mergeElems cfg x = .ok y) :
    mergeElems cfg y = .ok y := by
  unfold mergeElems at h ⊢
  exact fp_fixed cfg _ y (mergeFuel_fp cfg _ x y g h).1 (Nat.lt_succ_self _)

/-! ## the hypotheses are decidable: `goodTree` is what the driver evaluates -/

theorem good_of_goodTree (x : Xml) (h : goodTree x = true) : G [x] := by
  unfold goodTree at h
  simp only [Bool.and_eq_true, decide_eq_true_eq] at h
  obtain ⟨⟨h1, h2⟩, h3⟩ := h
  refine ⟨h1, ?_, ?_⟩
  · intro a ha b hb hab
    unfold prefixOK at h2
    have ea := List.all_eq_true.1 h2 a ha
    have eb := List.all_eq_true.1 h2 b hb
    rw [hab] at ea
    rw [beq_iff_eq] at ea eb
    rw [ea] at eb
    exact Option.some.inj eb
  · intro e he c hc hct
    have := List.all_eq_true.1 h3 e he
    unfold prCleanNode at this
    have := List.all_eq_true.1 this c hc
    rw [hct] at this
    simpa using this

/-- `merge_elems` is idempotent on every tree that passes `goodTree` -/
theorem mergeElems_idem_checked (cfg : PartCfg) (x y : Xml) (hg : goodTree x = true) (h : mergeElems cfg x = .ok y) :
    mergeElems cfg y = .ok y := mergeElems_idem cfg x y (good_of_goodTree x hg) h

namespace Ex
/-- non-vacuity: a paragraph whose run was cut into three pieces with markup in between, and a table cell -/
def cutPar : Xml := el 100 "p" [] none (pieces3 ++ [el 20 "tbl" [] none [el 21 "tr" [] none [el 22 "tc" [] none [el 23 "p" [] none [r 24 [t 25 "x"], r 26 [t 27 "y"]]]]]])
example : goodTree cutPar = true := by decide +kernel
example : ((mergeElems cfg cutPar).toOption.map fun y => (descL [y]).filterMap Xml.id?) =
    some [100, 1, 2, 3, 6, 20, 21, 22, 23, 24, 25] := by decide +kernel
end Ex

end D2P
