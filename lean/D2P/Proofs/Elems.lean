import D2P.Proofs.Paragraph
import D2P.Proofs.Hyperlink
/-!
# An implicit paragraph is never open together with another paragraph (invariant of the walk)

`elems s` lists, bottom to top, the elements of the open paragraphs (`none` = an implicit paragraph,
opened by `_open_par` for inline content outside every `w:p`).  `Sole`: either every open
paragraph belongs to an element, or the implicit paragraph is the ONLY open one.  The walk keeps
it: `ensurePar` opens an implicit paragraph only when nothing is open; a `w:p` (which always has a
depth) concludes a pending implicit paragraph before its own record is opened.  Hence the
hypothesis `s.openPars = [p]` of `walk_after_implicit` / `C02_implicit_in_order` holds in every
state the walk reaches in which an implicit paragraph is pending (`sole_implicit_top`).
-/
namespace D2P

def elems (s : DC) : List (Option Nat) := s.openPars.map (·.elem)

def AllSome (l : List (Option Nat)) : Prop := ∀ e ∈ l, e.isSome = true
def Sole (l : List (Option Nat)) : Prop := AllSome l ∨ l = [none]

/-- an operation on inline content: the open paragraphs keep their elements, or an implicit
paragraph was opened because none was open -/
def Soft (s s' : DC) : Prop := elems s' = elems s ∨ (elems s = [] ∧ elems s' = [none])

theorem Soft.refl (s : DC) : Soft s s := Or.inl rfl
theorem soft_of_openPars {s s' : DC} (h : s'.openPars = s.openPars) : Soft s s' := Or.inl (by simp [elems, h])
theorem soft_of_elems {s s' : DC} (h : elems s' = elems s) : Soft s s' := Or.inl h

theorem Soft.trans {a b c : DC} (x : Soft a b) (y : Soft b c) : Soft a c := by
  rcases x with x | ⟨x0, x1⟩
  · rcases y with y | ⟨y0, y1⟩
    · exact Or.inl (y.trans x)
    · exact Or.inr ⟨by rw [← x]; exact y0, y1⟩
  · rcases y with y | ⟨y0, _⟩
    · exact Or.inr ⟨x0, y.trans x1⟩
    · rw [x1] at y0; cases y0

theorem Soft.sole {s s' : DC} (h : Soft s s') (hs : Sole (elems s)) : Sole (elems s') := by
  rcases h with h | ⟨_, h1⟩
  · rw [h]; exact hs
  · exact Or.inr h1

theorem Soft.same_of_ne {s s' : DC} (h : Soft s s') (hne : elems s ≠ []) : elems s' = elems s := by
  rcases h with h | ⟨h0, _⟩
  · exact h
  · exact absurd h0 hne

theorem allSome_sole {l : List (Option Nat)} (h : AllSome l) : Sole l := Or.inl h

theorem sole_dropLast {l : List (Option Nat)} (h : Sole l) : Sole l.dropLast := by
  rcases h with h | h
  · exact Or.inl (fun e he => h e (List.dropLast_subset _ he))
  · subst h; exact Or.inl (by intro e he; simp at he)

theorem elems_modTop (s : DC) (f : Par → Par) (hf : ∀ p, (f p).elem = p.elem) : elems (s.modTop f) = elems s := by
  unfold DC.modTop elems
  cases hl : s.openPars.getLast? with
  | none => rfl
  | some q =>
    simp only [List.map_append, List.map_cons, List.map_nil, hf]
    have hne : s.openPars ≠ [] := by intro e; rw [e] at hl; cases hl
    have hq : s.openPars.getLast hne = q := by
      rw [List.getLast?_eq_some_getLast hne] at hl; exact Option.some.inj hl
    conv => rhs; rw [← List.dropLast_concat_getLast hne]
    simp [hq]

theorem appendToLastRun_elem (p : Par) (t : Str) : (appendToLastRun p t).elem = p.elem := by
  unfold appendToLastRun; split <;> rfl

/-! ## the primitives -/

theorem commencePar_elems (html : Bool) (s s' : DC) (e : Option Xml) (c : Bool) (h : s.commencePar html e c = .ok s') :
    elems s' = elems s ++ [e.bind Xml.id?] := by
  unfold DC.commencePar at h
  obtain ⟨s1, h1, h⟩ := bind_ok h
  obtain ⟨_, _, h⟩ := bind_ok h
  obtain ⟨_, _, h⟩ := bind_ok h
  have := pure_ok h; subst this
  simp [elems, (setCaret_frame s s1 _ _ h1).openPars]

theorem concludePar_elems (s s' : DC) (h : s.concludePar = .ok s') : elems s' = (elems s).dropLast := by
  cases hp : s.openPars.getLast? with
  | none =>
    unfold DC.concludePar at h; simp only [hp] at h; have := pure_ok h; subst this
    have : s.openPars = [] := by simpa using hp
    simp [elems, this]
  | some p0 =>
    obtain ⟨_, ho, _⟩ := concludePar_spec s s' p0 hp h
    simp [elems, ho, List.map_dropLast]

theorem ensurePar_soft (html : Bool) (s s' : DC) (h : s.ensurePar html = .ok s') : Soft s s' := by
  unfold DC.ensurePar at h
  split at h
  · rename_i he
    have h0 : s.openPars = [] := by simpa using he
    have := commencePar_elems html s s' none false h
    exact Or.inr ⟨by simp [elems, h0], by rw [this]; simp [elems, h0]⟩
  · have := pure_ok h; subst this; exact Soft.refl s

theorem commenceRun_soft (html : Bool) (s s' : DC) (e : Option Xml) (h : s.commenceRun html e = .ok s') : Soft s s' := by
  unfold DC.commenceRun at h
  obtain ⟨_, _, h⟩ := bind_ok h
  obtain ⟨s1, h1, h⟩ := bind_ok h
  have := pure_ok h; subst this
  exact (ensurePar_soft html s s1 h1).trans (soft_of_elems (elems_modTop _ _ (fun _ => rfl)))

theorem ensureRun_soft (html : Bool) (s s' : DC) (h : s.ensureRun html = .ok s') : Soft s s' := by
  unfold DC.ensureRun at h
  obtain ⟨s1, h1, h⟩ := bind_ok h
  have := pure_ok h; subst this
  exact (ensurePar_soft html s s1 h1).trans (soft_of_elems (elems_modTop _ _ (fun p => by split <;> rfl)))

theorem addCode_soft (html : Bool) (s s' : DC) (t : Str) (h : s.addCode html t = .ok s') : Soft s s' := by
  unfold DC.addCode at h
  obtain ⟨s1, h1, h⟩ := bind_ok h
  have := pure_ok h; subst this
  exact (ensureRun_soft html s s1 h1).trans (soft_of_elems (elems_modTop _ _ (fun p => appendToLastRun_elem p t)))

theorem addText_soft (html : Bool) (s s' : DC) (t : Str) (h : s.addText html t = .ok s') : Soft s s' :=
  addCode_soft html s s' _ h

theorem insertNewRun_soft (html : Bool) (s s' : DC) (t : Str) (h : s.insertNewRun html t = .ok s') : Soft s s' := by
  unfold DC.insertNewRun at h
  obtain ⟨s1, h1, h⟩ := bind_ok h
  have := pure_ok h; subst this
  exact (ensureRun_soft html s s1 h1).trans (soft_of_elems (elems_modTop _ _ (fun _ => rfl)))

theorem insertOpt_soft (html : Bool) (s s' : DC) (t : Option Str) (h : insertOpt html s t = .ok s') : Soft s s' := by
  unfold insertOpt at h
  split at h
  · exact insertNewRun_soft html s s' _ h
  · have := pure_ok h; subst this; exact Soft.refl s

theorem startRange_soft (s s' : DC) (id : Str) (h : s.startRange id = .ok s') : Soft s s' := by
  unfold DC.startRange at h
  obtain ⟨_, _, h⟩ := bind_ok h
  have := pure_ok h; subst this; exact soft_of_openPars rfl

theorem endRange_soft (s s' : DC) (id : Str) (h : s.endRange id = .ok s') : Soft s s' := by
  unfold DC.endRange at h
  obtain ⟨_, _, h⟩ := bind_ok h
  have := pure_ok h; subst this; exact soft_of_openPars rfl

/-- a note label: the open paragraphs keep their elements, or a pending implicit paragraph was concluded -/
theorem noteLabel_elems (s s' : DC) (x : Xml) (k : String) (h : noteLabel s x k = .ok s') :
    elems s' = elems s ∨ elems s' = (elems s).dropLast := by
  unfold noteLabel at h
  obtain ⟨_, _, h⟩ := bind_ok h
  split at h
  · have := pure_ok h; subst this; exact Or.inl rfl
  · obtain ⟨_, _, h⟩ := bind_ok h
    obtain ⟨s0, h0, h⟩ := bind_ok h
    have := pure_ok h; subst this
    rcases flushImplicit_cases s s0 _ h0 with e | e
    · subst e; exact Or.inl rfl
    · exact Or.inr (concludePar_elems s s0 e)

theorem openParagraph_elems (cfg : PartCfg) (s s' : DC) (x : Xml) (c : Bool) (h : openParagraph cfg s x c = .ok s') :
    elems s' = elems s ++ [x.id?] := by
  unfold openParagraph at h
  obtain ⟨s1, h1, h⟩ := bind_ok h
  obtain ⟨bb, _, h⟩ := bind_ok h
  obtain ⟨s2, h2, h⟩ := bind_ok h
  have := pure_ok h; subst this
  have e1 := commencePar_elems cfg.html s s1 _ c h1
  have k2 := insertNewRun_soft cfg.html _ s2 _ h2
  have e2 : elems s2 = elems s1 := by
    have := k2.same_of_ne (by show elems s1 ≠ []; rw [e1]; simp)
    exact this
  have e3 := elems_modTop s2 (fun p => { p with listPos := (listPosition bb.1 x (x.id?.getD 0)).2 }) (fun _ => rfl)
  rw [e3, e2, e1]; rfl

/-! ## the steps of the walk -/

theorem tagTable_paragraph_only : tagTable.all (fun e => !(e.2 == "PARAGRAPH") || e.1 == paragraphTag) = true := by decide

theorem par_of_member (pt : Str) (h : tagMember pt = some "PARAGRAPH") : pt = paragraphTag := by
  unfold tagMember at h
  cases hf : tagTable.find? (fun e => e.1 == pt) with
  | none => simp [hf] at h
  | some e =>
    simp only [hf, Option.map_some, Option.some.injEq] at h
    have hm := List.mem_of_find?_eq_some hf
    have hp : (e.1 == pt) = true := by simpa using List.find?_some hf
    have := List.all_eq_true.1 tagTable_paragraph_only e hm
    simp only [h, beq_self_eq_true, Bool.not_true, Bool.false_or, beq_iff_eq] at this
    rw [← this]; exact (by simpa using hp : e.1 = pt).symm

theorem openStep_elems (cfg : PartCfg) (s s' : DC) (x : Xml) (c : Bool) (roots : List (List Nest)) (r : Bool)
    (h : openStep cfg s x c roots = .ok (s', r)) :
    (tagMember x.ptag = some "PARAGRAPH" ∧ elems s' = elems s ++ [x.id?]) ∨ Soft s s' ∨ elems s' = (elems s).dropLast := by
  unfold openStep at h
  have wt : ∀ (X : M DC), (∀ t, X = .ok t → Soft s t) → ∀ r, withTrue X = .ok (s', r) → Soft s s' ∨ elems s' = (elems s).dropLast :=
    fun X hX r hr => Or.inl (hX s' (withTrue_ok hr).1)
  have wf : ∀ (X : M DC), (∀ t, X = .ok t → Soft s t) → ∀ r, withFalse X = .ok (s', r) → Soft s s' ∨ elems s' = (elems s).dropLast :=
    fun X hX r hr => Or.inl (hX s' (withFalse_ok hr).1)
  split at h
  · rename_i hm
    exact Or.inl ⟨hm, openParagraph_elems cfg s s' x c (withTrue_ok h).1⟩
  · exact Or.inr (wt _ (fun t ht => commenceRun_soft cfg.html s t _ ht) r h)
  · exact Or.inr (wf _ (fun t ht => by obtain ⟨id, _, ht⟩ := bind_ok ht; exact endRange_soft s t id ht) r h)
  · exact Or.inr (wf _ (fun t ht => by obtain ⟨id, _, ht⟩ := bind_ok ht; exact startRange_soft s t id ht) r h)
  · exact Or.inr (wt _ (fun t ht => addCode_soft cfg.html s t _ ht) r h)
  · exact Or.inr (wt _ (fun t ht => addCode_soft cfg.html s t _ ht) r h)
  · exact Or.inr (wf _ (fun t ht => insertNewRun_soft cfg.html s t _ ht) r h)
  · exact Or.inr (wt _ (fun t ht => addCode_soft cfg.html s t _ ht) r h)
  · exact Or.inr (wt _ (fun t ht => by
      obtain ⟨cde, _, ht⟩ := bind_ok ht
      split at ht
      · exact addCode_soft cfg.html s t _ ht
      · have := pure_ok ht; subst this; exact Soft.refl s) r h)
  · rcases noteLabel_elems s s' x _ (withTrue_ok h).1 with e | e
    · exact Or.inr (Or.inl (soft_of_elems e))
    · exact Or.inr (Or.inr e)
  · rcases noteLabel_elems s s' x _ (withTrue_ok h).1 with e | e
    · exact Or.inr (Or.inl (soft_of_elems e))
    · exact Or.inr (Or.inr e)
  · exact Or.inr (wf _ (fun t ht => openHyperlink_preserves (P := fun a => Soft s a) cfg
      (fun a id b ha hb => ha.trans (startRange_soft a b id hb)) (fun a tx b ha hb => ha.trans (insertNewRun_soft cfg.html a b tx hb))
      (fun a id b ha hb => ha.trans (endRange_soft a b id hb)) s t x roots (Soft.refl s) ht) r h)
  · exact Or.inr (wt _ (fun t ht => by obtain ⟨tx, _, ht⟩ := bind_ok ht; exact insertNewRun_soft cfg.html s t _ ht) r h)
  · exact Or.inr (wt _ (fun t ht => by obtain ⟨tx, _, ht⟩ := bind_ok ht; exact insertNewRun_soft cfg.html s t _ ht) r h)
  · exact Or.inr (wt _ (fun t ht => by obtain ⟨tx, _, ht⟩ := bind_ok ht; exact insertNewRun_soft cfg.html s t _ ht) r h)
  · exact Or.inr (wt _ (fun t ht => by obtain ⟨tx, _, ht⟩ := bind_ok ht; exact insertNewRun_soft cfg.html s t _ ht) r h)
  · exact Or.inr (wt _ (fun t ht => by obtain ⟨tx, _, ht⟩ := bind_ok ht; exact insertOpt_soft cfg.html s t _ ht) r h)
  · exact Or.inr (wt _ (fun t ht => by obtain ⟨tx, _, ht⟩ := bind_ok ht; exact insertOpt_soft cfg.html s t _ ht) r h)
  · exact Or.inr (wt _ (fun t ht => insertOpt_soft cfg.html s t _ ht) r h)
  · exact Or.inr (wt _ (fun t ht => insertNewRun_soft cfg.html s t _ ht) r h)
  · have := pure_ok h; cases this; exact Or.inr (Or.inl (Soft.refl s))

theorem flushImplicit_sole (s s' : DC) (d : Option Nat) (hs : Sole (elems s)) (h : s.flushImplicit d = .ok s') :
    Sole (elems s') ∧ (d.isSome = true → AllSome (elems s')) := by
  unfold DC.flushImplicit at h
  cases d with
  | none => have := pure_ok h; subst this; exact ⟨hs, by intro hd; cases hd⟩
  | some d =>
    simp only at h
    cases hl : s.openPars.getLast? with
    | none =>
      rw [hl] at h; have := pure_ok h; subst this
      have : s.openPars = [] := by simpa using hl
      exact ⟨hs, fun _ => by intro e he; simp [elems, this] at he⟩
    | some p =>
      rw [hl] at h
      simp only at h
      have hmem : p.elem ∈ elems s := List.mem_map.2 ⟨p, List.mem_of_getLast? hl, rfl⟩
      split at h
      · rename_i hn
        have e := concludePar_elems s s' h
        rcases hs with hs | hs
        · have := hs _ hmem; rw [Option.isNone_iff_eq_none.1 hn] at this; cases this
        · rw [e, hs]; exact ⟨Or.inl (by intro e he; simp at he), fun _ => by intro e he; simp at he⟩
      · rename_i hn
        have := pure_ok h; subst this
        rcases hs with hs | hs
        · exact ⟨Or.inl hs, fun _ => hs⟩
        · rw [hs] at hmem; simp at hmem
          rw [hmem] at hn; simp at hn

theorem closeStepCore_sole (cfg : PartCfg) (s s' : DC) (x : Xml) (hs : Sole (elems s)) (h : closeStepCore cfg s x = .ok s') :
    Sole (elems s') := by
  unfold closeStepCore at h
  split at h
  · rw [concludePar_elems s s' h]; exact sole_dropLast hs
  · exact (commenceRun_soft cfg.html s s' none h).sole hs
  · have := closeTableCell_openPars cfg.dup s s' x h
    exact (soft_of_openPars this).sole hs
  · have := pure_ok h; subst this; exact hs

mutual
/-- **an implicit paragraph is never open together with another paragraph** -/
theorem walk_sole (cfg : PartCfg) (num : Dict Str (List NumAttr)) :
    (x : Xml) → (c : Bool) → (s s' : DC) → Sole (elems s) → walk cfg num c s x = .ok s' → Sole (elems s')
  | .elem i p t m a tx tl ks, c, s, s', hs, h => by
    simp only [walk] at h
    obtain ⟨s1, h1, h⟩ := bind_ok h
    unfold DC.setCaretOpen at h1
    obtain ⟨s0, h0, h1⟩ := bind_ok h1
    obtain ⟨hs0, ha0⟩ := flushImplicit_sole s s0 _ hs h0
    have e1 : elems s1 = elems s0 := by simp [elems, (setCaret_frame s0 s1 _ _ h1).openPars]
    obtain ⟨roots, _, h⟩ := bind_ok h
    obtain ⟨⟨s2, rec⟩, h2, h⟩ := bind_ok h
    have hs2 : Sole (elems s2) := by
      rcases openStep_elems cfg s1 s2 _ c roots rec h2 with ⟨hm, e2⟩ | hsoft
      · have hpt := par_of_member _ hm
        have hd := elemDepth_par (.elem i p t m a tx tl ks) hpt rfl
        have a1 : AllSome (elems s1) := by rw [e1]; exact ha0 (by rw [hd]; rfl)
        refine Or.inl ?_
        rw [e2]
        intro e he
        rcases List.mem_append.1 he with he | he
        · exact a1 e he
        · simp at he; subst he; rfl
      · rcases hsoft with hsoft | hdrop
        · exact hsoft.sole (by rw [e1]; exact hs0)
        · rw [hdrop]; exact sole_dropLast (by rw [e1]; exact hs0)
    obtain ⟨s3, h3, h⟩ := bind_ok h
    have hs3 : Sole (elems s3) := by
      simp only at h3
      split at h3
      · exact walkL_sole cfg num ks _ s2 s3 hs2 h3
      · have := pure_ok h3; subst this; exact hs2
    obtain ⟨s4, h4, h⟩ := bind_ok h
    obtain ⟨s3', h3', h4⟩ := closeStep_split cfg s3 s4 _ h4
    have hs3' := (flushImplicit_sole s3 s3' _ hs3 h3').1
    have hs4 := closeStepCore_sole cfg s3' s4 _ hs3' h4
    have e5 : elems s' = elems s4 := by simp [elems, (setCaret_frame s4 s' _ _ h).openPars]
    rw [e5]; exact hs4
  | .comment _ _, c, s, s', hs, h => by simp only [walk] at h; have := pure_ok h; subst this; exact hs
  | .pi _, c, s, s', hs, h => by simp only [walk] at h; have := pure_ok h; subst this; exact hs
theorem walkL_sole (cfg : PartCfg) (num : Dict Str (List NumAttr)) :
    (xs : List Xml) → (c : Bool) → (s s' : DC) → Sole (elems s) → walkL cfg num c s xs = .ok s' → Sole (elems s')
  | [], c, s, s', hs, h => by simp only [walkL] at h; have := pure_ok h; subst this; exact hs
  | k :: ks, c, s, s', hs, h => by
    simp only [walkL] at h
    obtain ⟨s1, h1, h⟩ := bind_ok h
    exact walkL_sole cfg num ks c s1 s' (walk_sole cfg num k c s s1 hs h1) h
end

/-- in a state that satisfies `Sole`, a pending implicit paragraph is the only open paragraph -/
theorem sole_implicit_top (s : DC) (p : Par) (hs : Sole (elems s)) (ht : s.openPars.getLast? = some p) (hp : p.elem = none) :
    s.openPars = [p] := by
  have hmem : p.elem ∈ elems s := List.mem_map.2 ⟨p, List.mem_of_getLast? ht, rfl⟩
  rcases hs with hs | hs
  · have := hs _ hmem; rw [hp] at this; cases this
  · have hlen : s.openPars.length = 1 := by
      have := congrArg List.length hs; simpa [elems] using this
    match hq : s.openPars, hlen with
    | [q], _ => rw [hq] at ht; simp at ht; rw [ht]

theorem sole_init (num : Dict Str (List NumAttr)) : Sole (elems ({ bullets := { numAttrs := num } } : DC)) :=
  Or.inl (by intro e he; simp [elems] at he)

end D2P
