import D2P.Proofs.Inline
/-!
# `walk` on flat inline content = append `inlineText` to the open paragraph
-/
namespace D2P

theorem tagMember_paragraph : tagMember paragraphTag = some "PARAGRAPH" := by decide
theorem tagMember_hyperlink : tagMember hyperlinkTag = some "HYPERLINK" := by decide

theorem not_par_of_flat (x : Xml) (h : isStructural x = false) : (x.ptag == paragraphTag) = false := by
  cases hb : x.ptag == paragraphTag with
  | false => rfl
  | true =>
    have e : x.ptag = paragraphTag := by simpa using hb
    unfold isStructural at h
    rw [e, tagMember_paragraph] at h
    simp at h

theorem not_link_of_flat (x : Xml) (h : isStructural x = false) : (x.ptag == hyperlinkTag) = false := by
  cases hb : x.ptag == hyperlinkTag with
  | false => rfl
  | true =>
    have e : x.ptag = hyperlinkTag := by simpa using hb
    unfold isStructural at h
    rw [e, tagMember_hyperlink] at h
    simp at h

mutual
theorem nearestPar_flat : (x : Xml) → flatInline x = true → nearestPar x = none
  | .elem i p t m a tx tl ks, h => by
    simp only [flatInline, Bool.and_eq_true, Bool.not_eq_true'] at h
    simp only [nearestPar, not_par_of_flat _ h.1, Bool.false_eq_true, if_false, nearestParL_flat ks h.2, Option.map_none]
  | .comment _ _, _ => rfl
  | .pi _, _ => rfl
theorem nearestParL_flat : (xs : List Xml) → flatInlineL xs = true → nearestParL xs = none
  | [], _ => rfl
  | k :: ks, h => by
    simp only [flatInlineL, Bool.and_eq_true] at h
    simp only [nearestParL, nearestPar_flat k h.1, nearestParL_flat ks h.2, optMin]
end

theorem elemDepth_flat (x : Xml) (h : flatInline x = true) : elemDepth x = none := by
  unfold elemDepth
  split
  · rfl
  · simp [nearestPar_flat x h]

theorem withTrue_ok {x : M DC} {s' : DC} {r : Bool} (h : withTrue x = .ok (s', r)) : x = .ok s' ∧ r = true := by
  unfold withTrue at h
  obtain ⟨t, ht, h⟩ := bind_ok h
  have := pure_ok h; cases this; exact ⟨ht, rfl⟩

theorem withFalse_ok {x : M DC} {s' : DC} {r : Bool} (h : withFalse x = .ok (s', r)) : x = .ok s' ∧ r = false := by
  unfold withFalse at h
  obtain ⟨t, ht, h⟩ := bind_ok h
  have := pure_ok h; cases this; exact ⟨ht, rfl⟩

theorem insertOpt_grow (html : Bool) (s s' : DC) (t : Option Str) (h : HasTop s) (he : insertOpt html s t = .ok s') :
    Grow s s' (t.getD []) := by
  unfold insertOpt at he
  split at he
  · exact insertNewRun_grow html s s' _ h he
  · have := pure_ok he; subst this; exact Grow.refl s h

/-- the open step of a non-structural element appends exactly its own stand-in -/
theorem openStep_flat (cfg : PartCfg) (s s' : DC) (x : Xml) (c : Bool) (r : Bool) (hx : isStructural x = false)
    (h : HasTop s) (he : openStep cfg s x c [] = .ok (s', r)) :
    ∃ t, ownText cfg x = .ok (t, r) ∧ Grow s s' t := by
  unfold openStep at he
  unfold ownText
  unfold isStructural at hx
  split at he <;> simp_all only [reduceCtorEq]
  · -- RUN
    obtain ⟨h1, rfl⟩ := withTrue_ok he
    exact ⟨[], rfl, commenceRun_grow cfg.html s s' _ h h1⟩
  · -- TEXT
    obtain ⟨h1, rfl⟩ := withTrue_ok he
    unfold DC.addText at h1
    exact ⟨_, rfl, addCode_grow cfg.html s s' _ h h1⟩
  · -- TEXT_MATH
    obtain ⟨h1, rfl⟩ := withTrue_ok he
    unfold DC.addText at h1
    exact ⟨_, rfl, addCode_grow cfg.html s s' _ h h1⟩
  · -- MATH
    obtain ⟨h1, rfl⟩ := withFalse_ok he
    exact ⟨_, rfl, insertNewRun_grow cfg.html s s' _ h h1⟩
  · -- BR
    obtain ⟨h1, rfl⟩ := withTrue_ok he
    exact ⟨_, rfl, addCode_grow cfg.html s s' _ h h1⟩
  · -- SYM
    obtain ⟨h1, rfl⟩ := withTrue_ok he
    obtain ⟨cd, hc, h1⟩ := bind_ok h1
    refine ⟨cd.getD [], by rw [hc]; rfl, ?_⟩
    split at h1
    · exact addCode_grow cfg.html s s' _ h h1
    · have := pure_ok h1; subst this; exact Grow.refl s h
  · -- FORM_CHECKBOX
    obtain ⟨h1, rfl⟩ := withTrue_ok he
    obtain ⟨t, ht, h1⟩ := bind_ok h1
    exact ⟨t, by rw [ht]; rfl, insertNewRun_grow cfg.html s s' _ h h1⟩
  · -- FORM_DDLIST
    obtain ⟨h1, rfl⟩ := withTrue_ok he
    obtain ⟨t, ht, h1⟩ := bind_ok h1
    exact ⟨t, by rw [ht]; rfl, insertNewRun_grow cfg.html s s' _ h h1⟩
  · -- FOOTNOTE_REFERENCE
    obtain ⟨h1, rfl⟩ := withTrue_ok he
    obtain ⟨id, hid, h1⟩ := bind_ok h1
    exact ⟨_, by rw [hid]; rfl, insertNewRun_grow cfg.html s s' _ h h1⟩
  · -- ENDNOTE_REFERENCE
    obtain ⟨h1, rfl⟩ := withTrue_ok he
    obtain ⟨id, hid, h1⟩ := bind_ok h1
    exact ⟨_, by rw [hid]; rfl, insertNewRun_grow cfg.html s s' _ h h1⟩
  · -- IMAGE
    obtain ⟨h1, rfl⟩ := withTrue_ok he
    obtain ⟨t, ht, h1⟩ := bind_ok h1
    exact ⟨t.getD [], by rw [ht]; rfl, insertOpt_grow cfg.html s s' t h h1⟩
  · -- IMAGEDATA
    obtain ⟨h1, rfl⟩ := withTrue_ok he
    obtain ⟨t, ht, h1⟩ := bind_ok h1
    exact ⟨t.getD [], by rw [ht]; rfl, insertOpt_grow cfg.html s s' t h h1⟩
  · -- IMAGE_ALT
    obtain ⟨h1, rfl⟩ := withTrue_ok he
    exact ⟨_, rfl, insertOpt_grow cfg.html s s' _ h h1⟩
  · -- TAB
    obtain ⟨h1, rfl⟩ := withTrue_ok he
    exact ⟨_, rfl, insertNewRun_grow cfg.html s s' _ h h1⟩
  · -- anything else
    have := pure_ok he; cases this
    refine ⟨[], ?_, Grow.refl s h⟩
    rfl

end D2P

namespace D2P

theorem closeStep_flat (cfg : PartCfg) (s s' : DC) (x : Xml) (hx : isStructural x = false) (h : HasTop s)
    (hd : elemDepth x = none) (he : closeStep cfg s x = .ok s') : Grow s s' [] := by
  rw [closeStep_depth_none cfg s x hd] at he
  unfold closeStepCore at he
  unfold isStructural at hx
  split at he
  · rename_i hm; rw [hm] at hx; simp at hx
  · exact commenceRun_grow cfg.html s s' none h he
  · rename_i hm; rw [hm] at hx; simp at hx
  · have := pure_ok he; subst this; exact Grow.refl s h

theorem setCaret_none (s : DC) (n : Option Str) : s.setCaret none n = .ok s := rfl

mutual
/-- **Flat inline content only appends its `inlineText` to the open paragraph.** -/
theorem walk_flat (cfg : PartCfg) (num : Dict Str (List NumAttr)) :
    (x : Xml) → (c : Bool) → (s s' : DC) → flatInline x = true → HasTop s → walk cfg num c s x = .ok s' →
      ∃ t, inlineText cfg x = .ok t ∧ Grow s s' t
  | .elem i p t m a tx tl ks, c, s, s', hf, ht, h => by
    have hd := elemDepth_flat _ hf
    simp only [flatInline, Bool.and_eq_true, Bool.not_eq_true'] at hf
    simp only [walk, hd, setCaretOpen_none, setCaret_none, ok_bind, not_link_of_flat _ hf.1, Bool.false_eq_true, if_false] at h
    obtain ⟨roots, hr, h⟩ := bind_ok h
    have := pure_ok hr; subst this
    obtain ⟨⟨s2, rec⟩, h2, h⟩ := bind_ok h
    obtain ⟨t0, ho, g0⟩ := openStep_flat cfg s s2 _ c rec hf.1 ht h2
    obtain ⟨s3, h3, h⟩ := bind_ok h
    obtain ⟨s4, h4, h⟩ := bind_ok h
    have := pure_ok h; subst this
    simp only at h3
    cases rec with
    | true =>
      simp only [if_true] at h3
      obtain ⟨t1, hk, g1⟩ := walkL_flat cfg num ks _ s2 s3 hf.2 g0.hasTop h3
      have g4 := closeStep_flat cfg s3 s4 _ hf.1 g1.hasTop hd h4
      refine ⟨t0 ++ t1, ?_, by simpa using (g0.trans g1).trans g4⟩
      simp only [inlineText, ho, ok_bind, if_true, hk]; rfl
    | false =>
      simp only [Bool.false_eq_true, if_false] at h3
      have := pure_ok h3; subst this
      have g4 := closeStep_flat cfg s2 s4 _ hf.1 g0.hasTop hd h4
      refine ⟨t0, ?_, by simpa using g0.trans g4⟩
      simp only [inlineText, ho, ok_bind, Bool.false_eq_true, if_false]
      show (Except.ok (t0 ++ []) : M Str) = Except.ok t0
      rw [List.append_nil]
  | .comment _ _, c, s, s', hf, ht, h => by
    simp only [walk] at h; have := pure_ok h; subst this; exact ⟨[], rfl, Grow.refl s ht⟩
  | .pi _, c, s, s', hf, ht, h => by
    simp only [walk] at h; have := pure_ok h; subst this; exact ⟨[], rfl, Grow.refl s ht⟩
theorem walkL_flat (cfg : PartCfg) (num : Dict Str (List NumAttr)) :
    (xs : List Xml) → (c : Bool) → (s s' : DC) → flatInlineL xs = true → HasTop s → walkL cfg num c s xs = .ok s' →
      ∃ t, inlineTextL cfg xs = .ok t ∧ Grow s s' t
  | [], c, s, s', hf, ht, h => by
    simp only [walkL] at h; have := pure_ok h; subst this; exact ⟨[], rfl, Grow.refl s ht⟩
  | k :: ks, c, s, s', hf, ht, h => by
    simp only [flatInlineL, Bool.and_eq_true] at hf
    simp only [walkL] at h
    obtain ⟨s1, h1, h⟩ := bind_ok h
    obtain ⟨t1, e1, g1⟩ := walk_flat cfg num k c s s1 hf.1 ht h1
    obtain ⟨t2, e2, g2⟩ := walkL_flat cfg num ks c s1 s' hf.2 g1.hasTop h
    exact ⟨t1 ++ t2, by simp only [inlineTextL, e1, e2, ok_bind]; rfl, g1.trans g2⟩
end

end D2P
