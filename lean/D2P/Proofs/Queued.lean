import D2P.Proofs.Elems
/-!
# Without notes nothing is ever queued

`queue_run_for_next_paragraph` is called by the footnote / endnote handlers only.  `noNotes x`: no
element at or below `x` is dispatched to one of them.  `walk_noq`: walking such a tree from a state with
nothing queued ends in a state with nothing queued — the hypothesis `hq` of `C02_part` for headers,
footers and bodies.
-/
namespace D2P

def NoQ (s : DC) : Prop := s.queued = []

mutual
def noNotes : Xml → Bool
  | .elem i p t m a tx tl ks =>
    (match tagMember (Xml.elem i p t m a tx tl ks).ptag with
      | some "FOOTNOTE" => false
      | some "ENDNOTE" => false
      | _ => true) && noNotesL ks
  | _ => true
def noNotesL : List Xml → Bool
  | [] => true
  | k :: ks => noNotes k && noNotesL ks
end

theorem noq_of_queued {s s' : DC} (e : s'.queued = s.queued) (h : NoQ s) : NoQ s' := by unfold NoQ at *; rw [e]; exact h

theorem setCaret_noq (s s' : DC) (d : Option Nat) (n : Option Str) (hs : NoQ s) (h : s.setCaret d n = .ok s') : NoQ s' :=
  noq_of_queued (setCaret_frame s s' d n h).queued hs

theorem commencePar_noq (html : Bool) (s s' : DC) (e : Option Xml) (c : Bool) (h : s.commencePar html e c = .ok s') : NoQ s' := by
  unfold DC.commencePar at h
  obtain ⟨s1, _, h⟩ := bind_ok h
  obtain ⟨_, _, h⟩ := bind_ok h
  obtain ⟨_, _, h⟩ := bind_ok h
  have := pure_ok h; subst this; rfl

theorem concludePar_noq (s s' : DC) (hs : NoQ s) (h : s.concludePar = .ok s') : NoQ s' := by
  cases hp : s.openPars.getLast? with
  | none => unfold DC.concludePar at h; simp only [hp] at h; have := pure_ok h; subst this; exact hs
  | some p0 =>
    obtain ⟨_, _, hq, _⟩ := concludePar_spec s s' p0 hp h
    exact noq_of_queued hq hs

theorem ensurePar_noq (html : Bool) (s s' : DC) (hs : NoQ s) (h : s.ensurePar html = .ok s') : NoQ s' := by
  unfold DC.ensurePar at h
  split at h
  · exact commencePar_noq html s s' none false h
  · have := pure_ok h; subst this; exact hs

theorem commenceRun_noq (html : Bool) (s s' : DC) (e : Option Xml) (hs : NoQ s) (h : s.commenceRun html e = .ok s') : NoQ s' := by
  unfold DC.commenceRun at h
  obtain ⟨_, _, h⟩ := bind_ok h
  obtain ⟨s1, h1, h⟩ := bind_ok h
  have := pure_ok h; subst this
  exact noq_of_queued (modTop_queued _ _) (ensurePar_noq html s s1 hs h1)

theorem ensureRun_noq (html : Bool) (s s' : DC) (hs : NoQ s) (h : s.ensureRun html = .ok s') : NoQ s' := by
  unfold DC.ensureRun at h
  obtain ⟨s1, h1, h⟩ := bind_ok h
  have := pure_ok h; subst this
  exact noq_of_queued (modTop_queued _ _) (ensurePar_noq html s s1 hs h1)

theorem addCode_noq (html : Bool) (s s' : DC) (t : Str) (hs : NoQ s) (h : s.addCode html t = .ok s') : NoQ s' := by
  unfold DC.addCode at h
  obtain ⟨s1, h1, h⟩ := bind_ok h
  have := pure_ok h; subst this
  exact noq_of_queued (modTop_queued _ _) (ensureRun_noq html s s1 hs h1)

theorem insertNewRun_noq (html : Bool) (s s' : DC) (t : Str) (hs : NoQ s) (h : s.insertNewRun html t = .ok s') : NoQ s' := by
  unfold DC.insertNewRun at h
  obtain ⟨s1, h1, h⟩ := bind_ok h
  have := pure_ok h; subst this
  exact noq_of_queued (modTop_queued _ _) (ensureRun_noq html s s1 hs h1)

theorem insertOpt_noq (html : Bool) (s s' : DC) (t : Option Str) (hs : NoQ s) (h : insertOpt html s t = .ok s') : NoQ s' := by
  unfold insertOpt at h
  split at h
  · exact insertNewRun_noq html s s' _ hs h
  · have := pure_ok h; subst this; exact hs

theorem startRange_noq (s s' : DC) (id : Str) (hs : NoQ s) (h : s.startRange id = .ok s') : NoQ s' := by
  unfold DC.startRange at h
  obtain ⟨_, _, h⟩ := bind_ok h
  have := pure_ok h; subst this; exact hs

theorem endRange_noq (s s' : DC) (id : Str) (hs : NoQ s) (h : s.endRange id = .ok s') : NoQ s' := by
  unfold DC.endRange at h
  obtain ⟨_, _, h⟩ := bind_ok h
  have := pure_ok h; subst this; exact hs

theorem openParagraph_noq (cfg : PartCfg) (s s' : DC) (x : Xml) (c : Bool) (h : openParagraph cfg s x c = .ok s') : NoQ s' := by
  unfold openParagraph at h
  obtain ⟨s1, h1, h⟩ := bind_ok h
  obtain ⟨bb, _, h⟩ := bind_ok h
  obtain ⟨s2, h2, h⟩ := bind_ok h
  have := pure_ok h; subst this
  have q1 : NoQ ({ s1 with bullets := (listPosition bb.1 x (x.id?.getD 0)).1 } : DC) := commencePar_noq cfg.html s s1 _ c h1
  exact noq_of_queued (modTop_queued _ _) (insertNewRun_noq cfg.html _ s2 _ q1 h2)

theorem vmergeDo_noq (ti ri : Nat) (s s' : DC) (hs : NoQ s) (h : vmergeDo ti ri s = .ok s') : NoQ s' := by
  unfold vmergeDo at h
  obtain ⟨s1, h1, h⟩ := bind_ok h
  have q1 := setCaret_noq s s1 _ _ hs h1
  obtain ⟨_, _, h⟩ := bind_ok h
  obtain ⟨_, _, h⟩ := bind_ok h
  split at h
  · have := pure_ok h; subst this; exact q1
  · split at h
    · have := pure_ok h; subst this; exact q1
    · have := pure_ok h; subst this; exact q1

theorem spanStep_noq (dup : Bool) (ti ri : Nat) (s s' : DC) (hs : NoQ s) (h : spanStep dup ti ri s = .ok s') : NoQ s' := by
  unfold spanStep at h
  obtain ⟨s1, h1, h⟩ := bind_ok h
  have q1 := setCaret_noq s s1 _ _ hs h1
  obtain ⟨_, _, h⟩ := bind_ok h
  have := pure_ok h; subst this; exact q1

theorem iterateM_noq (f : DC → M DC) (hf : ∀ a b, NoQ a → f a = .ok b → NoQ b) :
    ∀ (n : Nat) (s s' : DC), NoQ s → iterateM f n s = .ok s' → NoQ s'
  | 0, s, s', hs, h => by simp only [iterateM] at h; have := pure_ok h; subst this; exact hs
  | n+1, s, s', hs, h => by
    simp only [iterateM] at h
    obtain ⟨s1, h1, h⟩ := bind_ok h
    exact iterateM_noq f hf n s1 s' (hf s s1 hs h1) h

theorem closeTableCell_noq (dup : Bool) (s s' : DC) (tc : Xml) (hs : NoQ s) (h : closeTableCell dup s tc = .ok s') : NoQ s' := by
  unfold closeTableCell at h
  split at h
  · have := pure_ok h; subst this; exact hs
  · obtain ⟨_, _, h⟩ := bind_ok h
    obtain ⟨_, _, h⟩ := bind_ok h
    split at h
    · have := pure_ok h; subst this; exact hs
    · obtain ⟨s1, h1, h⟩ := bind_ok h
      obtain ⟨n, _, h⟩ := bind_ok h
      have q1 : NoQ s1 := by
        unfold vmergeStep at h1
        split at h1
        · exact vmergeDo_noq _ _ s s1 hs h1
        · have := pure_ok h1; subst this; exact hs
      exact iterateM_noq _ (fun a b ha hab => spanStep_noq dup _ _ a b ha hab) n s1 s' q1 h

theorem openStep_noq (cfg : PartCfg) (s s' : DC) (x : Xml) (c : Bool) (roots : List (List Nest)) (r : Bool)
    (hn : tagMember x.ptag ≠ some "FOOTNOTE" ∧ tagMember x.ptag ≠ some "ENDNOTE") (hs : NoQ s)
    (h : openStep cfg s x c roots = .ok (s', r)) : NoQ s' := by
  unfold openStep at h
  have wt : ∀ (X : M DC), (∀ t, X = .ok t → NoQ t) → ∀ r, withTrue X = .ok (s', r) → NoQ s' :=
    fun X hX r hr => hX s' (withTrue_ok hr).1
  have wf : ∀ (X : M DC), (∀ t, X = .ok t → NoQ t) → ∀ r, withFalse X = .ok (s', r) → NoQ s' :=
    fun X hX r hr => hX s' (withFalse_ok hr).1
  split at h
  · exact wt _ (fun t ht => openParagraph_noq cfg s t x c ht) r h
  · exact wt _ (fun t ht => commenceRun_noq cfg.html s t _ hs ht) r h
  · exact wf _ (fun t ht => by obtain ⟨id, _, ht⟩ := bind_ok ht; exact endRange_noq s t id hs ht) r h
  · exact wf _ (fun t ht => by obtain ⟨id, _, ht⟩ := bind_ok ht; exact startRange_noq s t id hs ht) r h
  · exact wt _ (fun t ht => addCode_noq cfg.html s t _ hs ht) r h
  · exact wt _ (fun t ht => addCode_noq cfg.html s t _ hs ht) r h
  · exact wf _ (fun t ht => insertNewRun_noq cfg.html s t _ hs ht) r h
  · exact wt _ (fun t ht => addCode_noq cfg.html s t _ hs ht) r h
  · exact wt _ (fun t ht => by
      obtain ⟨cde, _, ht⟩ := bind_ok ht
      split at ht
      · exact addCode_noq cfg.html s t _ hs ht
      · have := pure_ok ht; subst this; exact hs) r h
  · rename_i hm; exact absurd hm hn.1
  · rename_i hm; exact absurd hm hn.2
  · exact wf _ (fun t ht => openHyperlink_preserves (P := NoQ) cfg
      (fun a id b ha hb => startRange_noq a b id ha hb) (fun a tx b ha hb => insertNewRun_noq cfg.html a b tx ha hb)
      (fun a id b ha hb => endRange_noq a b id ha hb) s t x roots hs ht) r h
  · exact wt _ (fun t ht => by obtain ⟨tx, _, ht⟩ := bind_ok ht; exact insertNewRun_noq cfg.html s t _ hs ht) r h
  · exact wt _ (fun t ht => by obtain ⟨tx, _, ht⟩ := bind_ok ht; exact insertNewRun_noq cfg.html s t _ hs ht) r h
  · exact wt _ (fun t ht => by obtain ⟨tx, _, ht⟩ := bind_ok ht; exact insertNewRun_noq cfg.html s t _ hs ht) r h
  · exact wt _ (fun t ht => by obtain ⟨tx, _, ht⟩ := bind_ok ht; exact insertNewRun_noq cfg.html s t _ hs ht) r h
  · exact wt _ (fun t ht => by obtain ⟨tx, _, ht⟩ := bind_ok ht; exact insertOpt_noq cfg.html s t _ hs ht) r h
  · exact wt _ (fun t ht => by obtain ⟨tx, _, ht⟩ := bind_ok ht; exact insertOpt_noq cfg.html s t _ hs ht) r h
  · exact wt _ (fun t ht => insertOpt_noq cfg.html s t _ hs ht) r h
  · exact wt _ (fun t ht => insertNewRun_noq cfg.html s t _ hs ht) r h
  · have := pure_ok h; cases this; exact hs

theorem closeStepCore_noq (cfg : PartCfg) (s s' : DC) (x : Xml) (hs : NoQ s) (h : closeStepCore cfg s x = .ok s') : NoQ s' := by
  unfold closeStepCore at h
  split at h
  · exact concludePar_noq s s' hs h
  · exact commenceRun_noq cfg.html s s' none hs h
  · exact closeTableCell_noq cfg.dup s s' x hs h
  · have := pure_ok h; subst this; exact hs

mutual
/-- **without notes nothing is ever queued** -/
theorem walk_noq (cfg : PartCfg) (num : Dict Str (List NumAttr)) :
    (x : Xml) → noNotes x = true → ∀ (c : Bool) (s s' : DC), NoQ s → walk cfg num c s x = .ok s' → NoQ s'
  | .elem i p t m a tx tl ks, hn, c, s, s', hs, h => by
    simp only [noNotes, Bool.and_eq_true] at hn
    have hne : tagMember (Xml.elem i p t m a tx tl ks).ptag ≠ some "FOOTNOTE" ∧ tagMember (Xml.elem i p t m a tx tl ks).ptag ≠ some "ENDNOTE" := by
      constructor <;> (intro e; rw [e] at hn; simp at hn)
    simp only [walk] at h
    obtain ⟨s1, h1, h⟩ := bind_ok h
    have q1 := setCaretOpen_preserves (P := NoQ) concludePar_noq (fun a b d n ha hb => setCaret_noq a b d n ha hb) s s1 _ _ hs h1
    obtain ⟨roots, _, h⟩ := bind_ok h
    obtain ⟨⟨s2, rec⟩, h2, h⟩ := bind_ok h
    have q2 := openStep_noq cfg s1 s2 _ c roots rec hne q1 h2
    obtain ⟨s3, h3, h⟩ := bind_ok h
    have q3 : NoQ s3 := by
      simp only at h3
      split at h3
      · exact walkL_noq cfg num ks hn.2 _ s2 s3 q2 h3
      · have := pure_ok h3; subst this; exact q2
    obtain ⟨s4, h4, h⟩ := bind_ok h
    have q4 := closeStep_preserves (P := NoQ) concludePar_noq cfg _ (fun a b ha hb => closeStepCore_noq cfg a b _ ha hb) s3 s4 q3 h4
    exact setCaret_noq s4 s' _ _ q4 h
  | .comment _ _, _, c, s, s', hs, h => by simp only [walk] at h; have := pure_ok h; subst this; exact hs
  | .pi _, _, c, s, s', hs, h => by simp only [walk] at h; have := pure_ok h; subst this; exact hs
theorem walkL_noq (cfg : PartCfg) (num : Dict Str (List NumAttr)) :
    (xs : List Xml) → noNotesL xs = true → ∀ (c : Bool) (s s' : DC), NoQ s → walkL cfg num c s xs = .ok s' → NoQ s'
  | [], _, c, s, s', hs, h => by simp only [walkL] at h; have := pure_ok h; subst this; exact hs
  | k :: ks, hn, c, s, s', hs, h => by
    simp only [noNotesL, Bool.and_eq_true] at hn
    simp only [walkL] at h
    obtain ⟨s1, h1, h⟩ := bind_ok h
    exact walkL_noq cfg num ks hn.2 c s1 s' (walk_noq cfg num k hn.1 c s s1 hs h1) h
end

end D2P
