import D2P.Proofs.Plain
/-!
# With html off no tag is ever attached to a run or a paragraph (invariant of the walk)
-/
namespace D2P

structure Unst (s : DC) : Prop where
  tree : ∀ p ∈ leafParsL s.root, p.unstyled
  open_ : ∀ p ∈ s.openPars, p.unstyled
  queued : ∀ r ∈ s.queued, r.style = []

theorem unst_of_frame (s s' : DC) (f : Frame s s') (h : Unst s) : Unst s' :=
  ⟨by rw [f.leaves]; exact h.tree, by rw [f.openPars]; exact h.open_, by rw [f.queued]; exact h.queued⟩

theorem modTop_unst (s : DC) (f : Par → Par) (h : Unst s) (hf : ∀ p, p.unstyled → (f p).unstyled) : Unst (s.modTop f) := by
  unfold DC.modTop
  split
  · exact h
  · rename_i p hp
    refine ⟨h.tree, ?_, h.queued⟩
    intro q hq
    rcases List.mem_append.1 hq with hq | hq
    · exact h.open_ q (List.dropLast_subset _ hq)
    · simp at hq; subst hq
      exact hf p (h.open_ p (List.mem_of_getLast? hp))

theorem commencePar_unst (s s' : DC) (e : Option Xml) (c : Bool) (h : Unst s)
    (he : s.commencePar false e c = .ok s') : Unst s' := by
  unfold DC.commencePar at he
  obtain ⟨s1, h1, he⟩ := bind_ok he
  obtain ⟨hs, hhs, he⟩ := bind_ok he
  obtain ⟨st, _, he⟩ := bind_ok he
  have := pure_ok he; subst this
  have u1 := unst_of_frame s s1 (setCaret_frame s s1 _ _ h1) h
  have hs0 : hs = [] := by
    cases e with
    | none => exact (pure_ok hhs).symm
    | some x => exact parFormatting_off x hs hhs
  refine ⟨u1.tree, ?_, by simp⟩
  intro q hq
  rcases List.mem_append.1 hq with hq | hq
  · exact u1.open_ q hq
  · simp at hq; subst hq
    exact ⟨hs0, u1.queued⟩

theorem concludePar_unst (s s' : DC) (h : Unst s) (he : s.concludePar = .ok s') : Unst s' := by
  cases hp : s.openPars.getLast? with
  | none =>
    unfold DC.concludePar at he; simp only [hp] at he; have := pure_ok he; subst this; exact h
  | some p0 =>
    obtain ⟨hl, ho, hq, _, _⟩ := concludePar_spec s s' p0 hp he
    refine ⟨?_, ?_, by rw [hq]; exact h.queued⟩
    · rw [hl]; intro q hq'
      rcases List.mem_append.1 hq' with hq' | hq'
      · exact h.tree q hq'
      · simp at hq'; subst hq'; exact h.open_ _ (List.mem_of_getLast? hp)
    · rw [ho]; intro q hq'; exact h.open_ q (List.dropLast_subset _ hq')

theorem ensurePar_unst (s s' : DC) (h : Unst s) (he : s.ensurePar false = .ok s') : Unst s' := by
  unfold DC.ensurePar at he
  split at he
  · exact commencePar_unst s s' none false h he
  · have := pure_ok he; subst this; exact h

theorem commenceRun_unst (s s' : DC) (e : Option Xml) (h : Unst s) (he : s.commenceRun false e = .ok s') : Unst s' := by
  unfold DC.commenceRun at he
  obtain ⟨st, hst, he⟩ := bind_ok he
  obtain ⟨s1, h1, he⟩ := bind_ok he
  have := pure_ok he; subst this
  have st0 : st = [] := by
    cases e with
    | none => exact (pure_ok hst).symm
    | some x => exact runFormatting_off x st hst
  apply modTop_unst s1 _ (ensurePar_unst s s1 h h1)
  intro p hp
  refine ⟨hp.1, ?_⟩
  intro r hr
  rcases List.mem_append.1 hr with hr | hr
  · exact hp.2 r hr
  · simp at hr; subst hr; exact st0

theorem ensureRun_unst (s s' : DC) (h : Unst s) (he : s.ensureRun false = .ok s') : Unst s' := by
  unfold DC.ensureRun at he
  obtain ⟨s1, h1, he⟩ := bind_ok he
  have := pure_ok he; subst this
  apply modTop_unst s1 _ (ensurePar_unst s s1 h h1)
  intro p hp
  split
  · exact ⟨hp.1, by intro r hr; simp at hr; subst hr; rfl⟩
  · exact hp

theorem addCode_unst (s s' : DC) (t : Str) (h : Unst s) (he : s.addCode false t = .ok s') : Unst s' := by
  unfold DC.addCode at he
  obtain ⟨s1, h1, he⟩ := bind_ok he
  have := pure_ok he; subst this
  apply modTop_unst s1 _ (ensureRun_unst s s1 h h1)
  intro p hp
  unfold appendToLastRun
  split
  · rename_i r hr
    refine ⟨hp.1, ?_⟩
    intro q hq
    rcases List.mem_append.1 hq with hq | hq
    · exact hp.2 q (List.dropLast_subset _ hq)
    · simp at hq; subst hq; exact hp.2 r (List.mem_of_getLast? hr)
  · exact hp

theorem insertNewRun_unst (s s' : DC) (t : Str) (h : Unst s) (he : s.insertNewRun false t = .ok s') : Unst s' := by
  unfold DC.insertNewRun at he
  obtain ⟨s1, h1, he⟩ := bind_ok he
  have := pure_ok he; subst this
  apply modTop_unst s1 _ (ensureRun_unst s s1 h h1)
  intro p hp
  refine ⟨hp.1, ?_⟩
  intro r hr
  rcases List.mem_append.1 hr with hr | hr
  · exact hp.2 r hr
  · simp at hr
    rcases hr with hr | hr
    · subst hr; rfl
    · subst hr
      show lastRunStyle p = []
      unfold lastRunStyle
      split
      · rename_i q hq; exact hp.2 q (List.mem_of_getLast? hq)
      · rfl

end D2P
