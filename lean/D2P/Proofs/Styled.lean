import D2P.Proofs.Hyperlink
import D2P.Proofs.UnstyledWalk
/-!
# A style invariant of the walk, generic in the predicate on style lists

`Sty Q s`: every style list attached to a run or a paragraph anywhere in the collector (finished
tree, open paragraphs, queued runs) satisfies `Q`. It is preserved by every step of the walk as
soon as `Q []` holds and `Q` holds for what `get_run_formatting` / `get_paragraph_formatting` return
(`StyleSpec`). With `Q := (· = [])` and html off this is the no-tags invariant of
`Proofs/Unstyled`; with `Q := okStyles` (every style has a first word, so `html_close` cannot
fail) it is what the totality theorem C13 needs.
-/
namespace D2P

def Par.sty (Q : List Str → Prop) (p : Par) : Prop := Q p.htmlStyle ∧ ∀ r ∈ p.runs, Q r.style

structure StyleSpec (html : Bool) (Q : List Str → Prop) : Prop where
  nil : Q []
  par : ∀ (x : Xml) (st : List Str), parFormatting html x = .ok st → Q st
  run : ∀ (x : Xml) (st : List Str), runFormatting html x = .ok st → Q st

variable {Q : List Str → Prop}


structure Sty (Q : List Str → Prop) (s : DC) : Prop where
  tree : ∀ p ∈ leafParsL s.root, p.sty Q
  open_ : ∀ p ∈ s.openPars, p.sty Q
  queued : ∀ r ∈ s.queued, Q r.style

theorem sty_of_frame (s s' : DC) (f : Frame s s') (h : Sty Q s) : Sty Q s' :=
  ⟨by rw [f.leaves]; exact h.tree, by rw [f.openPars]; exact h.open_, by rw [f.queued]; exact h.queued⟩

theorem modTop_sty (s : DC) (f : Par → Par) (h : Sty Q s) (hf : ∀ p, p.sty Q → (f p).sty Q) : Sty Q (s.modTop f) := by
  unfold DC.modTop
  split
  · exact h
  · rename_i p hp
    refine ⟨h.tree, ?_, h.queued⟩
    intro q hq
    rcases List.mem_append.1 hq with hq | hq
    · exact h.open_ q (List.dropLast_subset _ hq)
    · simp at hq; subst hq
      exact hf p (h.open_ p (List.mem_of_getLast? hp))

theorem commencePar_sty {html : Bool} (S : StyleSpec html Q) (s s' : DC) (e : Option Xml) (c : Bool) (h : Sty Q s)
    (he : s.commencePar html e c = .ok s') : Sty Q s' := by
  unfold DC.commencePar at he
  obtain ⟨s1, h1, he⟩ := bind_ok he
  obtain ⟨hs, hhs, he⟩ := bind_ok he
  obtain ⟨st, _, he⟩ := bind_ok he
  have := pure_ok he; subst this
  have u1 := sty_of_frame s s1 (setCaret_frame s s1 _ _ h1) h
  have hs0 : Q hs := by
    cases e with
    | none => have := pure_ok hhs; subst this; exact S.nil
    | some x => exact S.par x hs hhs
  refine ⟨u1.tree, ?_, by simp⟩
  intro q hq
  rcases List.mem_append.1 hq with hq | hq
  · exact u1.open_ q hq
  · simp at hq; subst hq
    exact ⟨hs0, u1.queued⟩

theorem concludePar_sty (s s' : DC) (h : Sty Q s) (he : s.concludePar = .ok s') : Sty Q s' := by
  cases hp : s.openPars.getLast? with
  | none =>
    unfold DC.concludePar at he; simp only [hp] at he; have := pure_ok he; subst this; exact h
  | some p0 =>
    obtain ⟨hl, ho, hq, _, _⟩ := concludePar_spec s s' p0 hp he
    refine ⟨?_, ?_, by rw [hq]; exact h.queued⟩
    · rw [hl]; intro q hq'
      rcases List.mem_append.1 hq' with hq' | hq'
      · exact h.tree q hq'
      · simp at hq'; subst hq'; exact h.open_ _ (List.mem_of_getLast? hp)
    · rw [ho]; intro q hq'; exact h.open_ q (List.dropLast_subset _ hq')

theorem ensurePar_sty {html : Bool} (S : StyleSpec html Q) (s s' : DC) (h : Sty Q s) (he : s.ensurePar html = .ok s') : Sty Q s' := by
  unfold DC.ensurePar at he
  split at he
  · exact commencePar_sty S s s' none false h he
  · have := pure_ok he; subst this; exact h

theorem commenceRun_sty {html : Bool} (S : StyleSpec html Q) (s s' : DC) (e : Option Xml) (h : Sty Q s) (he : s.commenceRun html e = .ok s') : Sty Q s' := by
  unfold DC.commenceRun at he
  obtain ⟨st, hst, he⟩ := bind_ok he
  obtain ⟨s1, h1, he⟩ := bind_ok he
  have := pure_ok he; subst this
  have st0 : Q st := by
    cases e with
    | none => have := pure_ok hst; subst this; exact S.nil
    | some x => exact S.run x st hst
  apply modTop_sty s1 _ (ensurePar_sty S s s1 h h1)
  intro p hp
  refine ⟨hp.1, ?_⟩
  intro r hr
  rcases List.mem_append.1 hr with hr | hr
  · exact hp.2 r hr
  · simp at hr; subst hr; exact st0

theorem ensureRun_sty {html : Bool} (S : StyleSpec html Q) (s s' : DC) (h : Sty Q s) (he : s.ensureRun html = .ok s') : Sty Q s' := by
  unfold DC.ensureRun at he
  obtain ⟨s1, h1, he⟩ := bind_ok he
  have := pure_ok he; subst this
  apply modTop_sty s1 _ (ensurePar_sty S s s1 h h1)
  intro p hp
  split
  · exact ⟨hp.1, by intro r hr; simp at hr; subst hr; exact S.nil⟩
  · exact hp

theorem addCode_sty {html : Bool} (S : StyleSpec html Q) (s s' : DC) (t : Str) (h : Sty Q s) (he : s.addCode html t = .ok s') : Sty Q s' := by
  unfold DC.addCode at he
  obtain ⟨s1, h1, he⟩ := bind_ok he
  have := pure_ok he; subst this
  apply modTop_sty s1 _ (ensureRun_sty S s s1 h h1)
  intro p hp
  unfold appendToLastRun
  split
  · rename_i r hr
    refine ⟨hp.1, ?_⟩
    intro q hq
    rcases List.mem_append.1 hq with hq | hq
    · exact hp.2 q (List.dropLast_subset _ hq)
    · simp at hq; subst hq; exact hp.2 r (List.mem_of_getLast? hr)
  · exact hp

theorem insertNewRun_sty {html : Bool} (S : StyleSpec html Q) (s s' : DC) (t : Str) (h : Sty Q s) (he : s.insertNewRun html t = .ok s') : Sty Q s' := by
  unfold DC.insertNewRun at he
  obtain ⟨s1, h1, he⟩ := bind_ok he
  have := pure_ok he; subst this
  apply modTop_sty s1 _ (ensureRun_sty S s s1 h h1)
  intro p hp
  refine ⟨hp.1, ?_⟩
  intro r hr
  rcases List.mem_append.1 hr with hr | hr
  · exact hp.2 r hr
  · simp at hr
    rcases hr with hr | hr
    · subst hr; exact S.nil
    · subst hr
      show Q (lastRunStyle p)
      unfold lastRunStyle
      split
      · rename_i q hq; exact hp.2 q (List.mem_of_getLast? hq)
      · exact S.nil








mutual
theorem sty_markCopy : (x : Nest) → (∀ p ∈ leafParsT x, p.sty Q) → ∀ p ∈ leafParsT (markCopyT x), p.sty Q
  | .par q, h => by
    intro p hp; simp [markCopyT, leafParsT] at hp; subst hp
    exact h q (by simp [leafParsT])
  | .list xs, h => by
    simp only [markCopyT, leafParsT] at h ⊢
    exact sty_markCopyL xs h
theorem sty_markCopyL : (xs : List Nest) → (∀ p ∈ leafParsL xs, p.sty Q) → ∀ p ∈ leafParsL (markCopyL xs), p.sty Q
  | [], _ => by intro p hp; simp [markCopyL, leafParsL] at hp
  | x :: xs, h => by
    intro p hp
    simp only [markCopyL, leafParsL, List.mem_append] at hp h
    rcases hp with hp | hp
    · exact sty_markCopy x (fun q hq => h q (Or.inl hq)) p hp
    · exact sty_markCopyL xs (fun q hq => h q (Or.inr hq)) p hp
end

theorem emptyPar_sty (h0 : Q []) : emptyPar.sty Q := ⟨h0, by intro r hr; simp [emptyPar] at hr⟩

theorem vmergeDo_sty (ti ri : Nat) (s s' : DC) (h : Sty Q s) (he : vmergeDo ti ri s = .ok s') : Sty Q s' := by
  unfold vmergeDo at he
  obtain ⟨s1, h1, he⟩ := bind_ok he
  have u1 := sty_of_frame s s1 (setCaret_frame s s1 _ _ h1) h
  obtain ⟨thisTr, hg1, he⟩ := bind_ok he
  obtain ⟨prevTr, hg2, he⟩ := bind_ok he
  split at he
  · have := pure_ok he; subst this; exact u1
  · split at he
    · have := pure_ok he; subst this; exact u1
    · rename_i above ha
      have := pure_ok he; subst this
      refine ⟨?_, u1.open_, u1.queued⟩
      intro p hp
      rcases mem_leaf_setRow _ _ _ _ p hp with hp | hp
      · exact u1.tree p hp
      · rw [leafParsL_append] at hp
        rcases List.mem_append.1 hp with hp | hp
        · apply u1.tree p
          apply mem_leaf_getRow _ _ _ _ hg1
          have : thisTr = thisTr.dropLast ++ thisTr.drop (thisTr.length - 1) := by
            rw [List.dropLast_eq_take]; exact (List.take_append_drop _ _).symm
          rw [this, leafParsL_append]; exact List.mem_append_left _ hp
        · simp only [leafParsL, List.append_nil] at hp
          apply sty_markCopy above _ p hp
          intro q hq
          exact u1.tree q (mem_leaf_getRow _ _ _ _ hg2 q (mem_leaf_of_getElem prevTr _ _ ha q hq))

theorem spanStep_sty (h0 : Q []) (dup : Bool) (ti ri : Nat) (s s' : DC) (h : Sty Q s) (he : spanStep dup ti ri s = .ok s') : Sty Q s' := by
  unfold spanStep at he
  obtain ⟨s1, h1, he⟩ := bind_ok he
  have u1 := sty_of_frame s s1 (setCaret_frame s s1 _ _ h1) h
  obtain ⟨thisTr, hg, he⟩ := bind_ok he
  have := pure_ok he; subst this
  refine ⟨?_, u1.open_, u1.queued⟩
  intro p hp
  rcases mem_leaf_setRow _ _ _ _ p hp with hp | hp
  · exact u1.tree p hp
  · rw [leafParsL_append] at hp
    rcases List.mem_append.1 hp with hp | hp
    · exact u1.tree p (mem_leaf_getRow _ _ _ _ hg p hp)
    · simp only [leafParsL, List.append_nil] at hp
      cases hdup : dup with
      | false =>
        have : newCell false thisTr = .list [.par emptyPar] := by unfold newCell; rfl
        rw [hdup, this] at hp
        simp [leafParsT, leafParsL] at hp; subst hp; exact emptyPar_sty h0
      | true =>
        cases hc : thisTr.getLast? with
        | none =>
          have : newCell true thisTr = .list [.par emptyPar] := by unfold newCell; simp [hc]
          rw [hdup, this] at hp
          simp [leafParsT, leafParsL] at hp; subst hp; exact emptyPar_sty h0
        | some cl =>
          have : newCell true thisTr = markCopyT cl := by unfold newCell; simp [hc]
          rw [hdup, this] at hp
          apply sty_markCopy cl _ p hp
          intro q hq
          apply u1.tree q
          apply mem_leaf_getRow _ _ _ _ hg
          have hne : thisTr ≠ [] := by intro e; subst e; simp at hc
          have e := List.dropLast_concat_getLast hne
          rw [List.getLast?_eq_some_getLast hne] at hc
          rw [← e, leafParsL_append]
          apply List.mem_append_right
          simp only [leafParsL, List.append_nil]
          rw [Option.some.inj hc]; exact hq

theorem iterateM_sty (f : DC → M DC) (hf : ∀ s s', Sty Q s → f s = .ok s' → Sty Q s') (n : Nat) (s s' : DC)
    (hs : Sty Q s) (h : iterateM f n s = .ok s') : Sty Q s' := by
  induction n generalizing s with
  | zero => simp only [iterateM] at h; have := pure_ok h; subst this; exact hs
  | succ n ih =>
    simp only [iterateM] at h
    obtain ⟨s1, h1, h⟩ := bind_ok h
    exact ih s1 (hf s s1 hs h1) h

theorem closeTableCell_sty (h0 : Q []) (dup : Bool) (s s' : DC) (tc : Xml) (h : Sty Q s) (he : closeTableCell dup s tc = .ok s') : Sty Q s' := by
  unfold closeTableCell at he
  split at he
  · have := pure_ok he; subst this; exact h
  obtain ⟨pr, _, he⟩ := bind_ok he
  obtain ⟨cap, _, he⟩ := bind_ok he
  split at he
  · have := pure_ok he; subst this; exact h
  · obtain ⟨s1, h1, he⟩ := bind_ok he
    have u1 : Sty Q s1 := by
      unfold vmergeStep at h1
      split at h1
      · exact vmergeDo_sty _ _ s s1 h h1
      · have := pure_ok h1; subst this; exact h
    obtain ⟨n, _, he⟩ := bind_ok he
    exact iterateM_sty _ (fun a b ia hab => spanStep_sty h0 dup _ _ a b ia hab) _ s1 s' u1 he



theorem noteLabel_sty (h0 : Q []) (s s' : DC) (x : Xml) (k : String) (h : Sty Q s) (he : noteLabel s x k = .ok s') : Sty Q s' := by
  unfold noteLabel at he
  obtain ⟨sep, _, he⟩ := bind_ok he
  split at he
  · have := pure_ok he; subst this; exact h
  · obtain ⟨id, _, he⟩ := bind_ok he
    obtain ⟨s0, hfl, he⟩ := bind_ok he
    have h := flushImplicit_preserves (P := Sty Q) concludePar_sty s s0 _ h hfl
    have := pure_ok he; subst this
    refine ⟨h.tree, h.open_, ?_⟩
    intro r hr
    unfold DC.queueRun at hr
    rcases List.mem_append.1 hr with hr | hr
    · exact h.queued r hr
    · simp at hr; subst hr; exact h0

theorem insertOpt_sty {html : Bool} (S : StyleSpec html Q) (s s' : DC) (t : Option Str) (h : Sty Q s) (he : insertOpt html s t = .ok s') : Sty Q s' := by
  unfold insertOpt at he
  split at he
  · exact insertNewRun_sty S s s' _ h he
  · have := pure_ok he; subst this; exact h

theorem openParagraph_sty {html : Bool} (S : StyleSpec html Q) (cfg : PartCfg) (hc : cfg.html = html) (s s' : DC) (x : Xml) (c : Bool) (h : Sty Q s)
    (he : openParagraph cfg s x c = .ok s') : Sty Q s' := by
  unfold openParagraph at he
  rw [hc] at he
  obtain ⟨s1, h1, he⟩ := bind_ok he
  have u1 := commencePar_sty S s s1 _ _ h h1
  obtain ⟨bb, _, he⟩ := bind_ok he
  obtain ⟨s2, h2, he⟩ := bind_ok he
  have u2 := insertNewRun_sty S ({ s1 with bullets := (listPosition bb.1 x (x.id?.getD 0)).1 } : DC) s2 _
    ⟨u1.tree, u1.open_, u1.queued⟩ h2
  have := pure_ok he; subst this
  exact modTop_sty s2 _ u2 (fun p hp => hp)

theorem startRange_sty (s s' : DC) (id : Str) (h : Sty Q s) (he : s.startRange id = .ok s') : Sty Q s' := by
  unfold DC.startRange at he
  obtain ⟨c, _, he⟩ := bind_ok he
  have := pure_ok he; subst this; exact ⟨h.tree, h.open_, h.queued⟩

theorem endRange_sty (s s' : DC) (id : Str) (h : Sty Q s) (he : s.endRange id = .ok s') : Sty Q s' := by
  unfold DC.endRange at he
  obtain ⟨c, _, he⟩ := bind_ok he
  have := pure_ok he; subst this; exact ⟨h.tree, h.open_, h.queued⟩

theorem withTrue_sty (x : M DC) (s' : DC) (r : Bool) (hx : ∀ t, x = .ok t → Sty Q t) (h : withTrue x = .ok (s', r)) : Sty Q s' :=
  hx s' (withTrue_ok h).1
theorem withFalse_sty (x : M DC) (s' : DC) (r : Bool) (hx : ∀ t, x = .ok t → Sty Q t) (h : withFalse x = .ok (s', r)) : Sty Q s' :=
  hx s' (withFalse_ok h).1

theorem openStep_sty {html : Bool} (S : StyleSpec html Q) (cfg : PartCfg) (hc : cfg.html = html) (s s' : DC) (x : Xml) (c : Bool) (roots : List (List Nest)) (r : Bool)
    (h : Sty Q s) (he : openStep cfg s x c roots = .ok (s', r)) : Sty Q s' := by
  unfold openStep at he
  rw [hc] at he
  split at he
  · exact withTrue_sty _ s' r (fun t ht => openParagraph_sty S cfg hc s t x c h ht) he
  · exact withTrue_sty _ s' r (fun t ht => commenceRun_sty S s t _ h ht) he
  · exact withFalse_sty _ s' r (fun t ht => by obtain ⟨id, _, ht⟩ := bind_ok ht; exact endRange_sty s t id h ht) he
  · exact withFalse_sty _ s' r (fun t ht => by obtain ⟨id, _, ht⟩ := bind_ok ht; exact startRange_sty s t id h ht) he
  · exact withTrue_sty _ s' r (fun t ht => addCode_sty S s t _ h ht) he
  · exact withTrue_sty _ s' r (fun t ht => addCode_sty S s t _ h ht) he
  · exact withFalse_sty _ s' r (fun t ht => insertNewRun_sty S s t _ h ht) he
  · exact withTrue_sty _ s' r (fun t ht => addCode_sty S s t _ h ht) he
  · exact withTrue_sty _ s' r (fun t ht => by
      obtain ⟨cde, _, ht⟩ := bind_ok ht
      split at ht
      · exact addCode_sty S s t _ h ht
      · have := pure_ok ht; subst this; exact h) he
  · exact withTrue_sty _ s' r (fun t ht => noteLabel_sty S.nil s t x _ h ht) he
  · exact withTrue_sty _ s' r (fun t ht => noteLabel_sty S.nil s t x _ h ht) he
  · exact withFalse_sty _ s' r (fun t ht => openHyperlink_preserves cfg (fun a id b ha hb => startRange_sty a b id ha hb)
      (fun a tx b ha hb => insertNewRun_sty S a b tx ha (by rw [hc] at hb; exact hb)) (fun a id b ha hb => endRange_sty a b id ha hb) s t x roots h ht) he
  · exact withTrue_sty _ s' r (fun t ht => by obtain ⟨tx, _, ht⟩ := bind_ok ht; exact insertNewRun_sty S s t _ h ht) he
  · exact withTrue_sty _ s' r (fun t ht => by obtain ⟨tx, _, ht⟩ := bind_ok ht; exact insertNewRun_sty S s t _ h ht) he
  · exact withTrue_sty _ s' r (fun t ht => by obtain ⟨tx, _, ht⟩ := bind_ok ht; exact insertNewRun_sty S s t _ h ht) he
  · exact withTrue_sty _ s' r (fun t ht => by obtain ⟨tx, _, ht⟩ := bind_ok ht; exact insertNewRun_sty S s t _ h ht) he
  · exact withTrue_sty _ s' r (fun t ht => by obtain ⟨tx, _, ht⟩ := bind_ok ht; exact insertOpt_sty S s t _ h ht) he
  · exact withTrue_sty _ s' r (fun t ht => by obtain ⟨tx, _, ht⟩ := bind_ok ht; exact insertOpt_sty S s t _ h ht) he
  · exact withTrue_sty _ s' r (fun t ht => insertOpt_sty S s t _ h ht) he
  · exact withTrue_sty _ s' r (fun t ht => insertNewRun_sty S s t _ h ht) he
  · have := pure_ok he; cases this; exact h

theorem closeStepCore_sty {html : Bool} (S : StyleSpec html Q) (cfg : PartCfg) (hc : cfg.html = html) (s s' : DC) (x : Xml) (h : Sty Q s)
    (he : closeStepCore cfg s x = .ok s') : Sty Q s' := by
  unfold closeStepCore at he
  rw [hc] at he
  split at he
  · exact concludePar_sty s s' h he
  · exact commenceRun_sty S s s' none h he
  · exact closeTableCell_sty S.nil cfg.dup s s' x h he
  · have := pure_ok he; subst this; exact h

theorem closeStep_sty {html : Bool} (S : StyleSpec html Q) (cfg : PartCfg) (hc : cfg.html = html) (s s' : DC) (x : Xml) (h : Sty Q s)
    (he : closeStep cfg s x = .ok s') : Sty Q s' :=
  closeStep_preserves (P := Sty Q) concludePar_sty cfg x (fun a b ha hb => closeStepCore_sty S cfg hc a b x ha hb) s s' h he

theorem setCaretOpen_sty (s s' : DC) (d : Option Nat) (n : Option Str) (h : Sty Q s) (he : s.setCaretOpen d n = .ok s') : Sty Q s' :=
  setCaretOpen_preserves (P := Sty Q) concludePar_sty (fun a b d n ha hb => sty_of_frame a b (setCaret_frame a b d n hb) ha) s s' d n h he

theorem finish_sty {html : Bool} (S : StyleSpec html Q) (cfg : PartCfg) (hc : cfg.html = html) (s s' : DC) (h : Sty Q s) (he : finish cfg s = .ok s') : Sty Q s' := by
  unfold finish at he
  rw [hc] at he
  obtain ⟨s1, h1, he⟩ := bind_ok he
  have u1 : Sty Q s1 := by
    split at h1
    · have := pure_ok h1; subst this; exact h
    · exact commencePar_sty S s s1 none false h h1
  exact concludePar_sty s1 s' u1 he

mutual
theorem walk_sty {html : Bool} (S : StyleSpec html Q) (cfg : PartCfg) (hc : cfg.html = html) (num : Dict Str (List NumAttr)) :
    (x : Xml) → (c : Bool) → (s s' : DC) → Sty Q s → walk cfg num c s x = .ok s' → Sty Q s'
  | .elem i p t m a tx tl ks, c, s, s', hs, h => by
    simp only [walk] at h
    obtain ⟨s1, h1, h⟩ := bind_ok h
    have u1 := setCaretOpen_sty s s1 _ _ hs h1
    obtain ⟨roots, _, h⟩ := bind_ok h
    obtain ⟨⟨s2, rec⟩, h2, h⟩ := bind_ok h
    have u2 : Sty Q s2 := openStep_sty S cfg hc s1 s2 _ c roots rec u1 h2
    obtain ⟨s3, h3, h⟩ := bind_ok h
    have u3 : Sty Q s3 := by
      simp only at h3
      split at h3
      · exact walkL_sty S cfg hc num ks _ s2 s3 u2 h3
      · have := pure_ok h3; subst this; exact u2
    obtain ⟨s4, h4, h⟩ := bind_ok h
    exact sty_of_frame s4 s' (setCaret_frame s4 s' _ _ h) (closeStep_sty S cfg hc s3 s4 _ u3 h4)
  | .comment _ _, c, s, s', hs, h => by simp only [walk] at h; have := pure_ok h; subst this; exact hs
  | .pi _, c, s, s', hs, h => by simp only [walk] at h; have := pure_ok h; subst this; exact hs
theorem walkL_sty {html : Bool} (S : StyleSpec html Q) (cfg : PartCfg) (hc : cfg.html = html) (num : Dict Str (List NumAttr)) :
    (xs : List Xml) → (c : Bool) → (s s' : DC) → Sty Q s → walkL cfg num c s xs = .ok s' → Sty Q s'
  | [], c, s, s', hs, h => by simp only [walkL] at h; have := pure_ok h; subst this; exact hs
  | k :: ks, c, s, s', hs, h => by
    simp only [walkL] at h
    obtain ⟨s1, h1, h⟩ := bind_ok h
    exact walkL_sty S cfg hc num ks c s1 s' (walk_sty S cfg hc num k c s s1 hs h1) h
end


end D2P
