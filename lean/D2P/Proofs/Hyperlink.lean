import D2P.Model.Walk
/-!
# Opening a hyperlink: whatever the range markers and the link's run preserve, the handler preserves
-/
namespace D2P

theorem foldIds_preserves {P : DC → Prop} (f : DC → Str → M DC) (hf : ∀ s id s', P s → f s id = .ok s' → P s') :
    ∀ (ms : List Xml) (s s' : DC), P s → foldIds f s ms = .ok s' → P s'
  | [], s, s', hs, h => by simp only [foldIds] at h; have := pure_ok h; subst this; exact hs
  | m :: ms, s, s', hs, h => by
    simp only [foldIds] at h
    obtain ⟨id, _, h⟩ := bind_ok h
    obtain ⟨s1, h1, h⟩ := bind_ok h
    exact foldIds_preserves f hf ms s1 s' (hf s id s1 hs h1) h

theorem openHyperlink_preserves {P : DC → Prop} (cfg : PartCfg)
    (hstart : ∀ s id s', P s → s.startRange id = .ok s' → P s')
    (hins : ∀ s t s', P s → s.insertNewRun cfg.html t = .ok s' → P s')
    (hend : ∀ s id s', P s → s.endRange id = .ok s' → P s')
    (s s' : DC) (x : Xml) (roots : List (List Nest)) (hs : P s) (h : openHyperlink cfg s x roots = .ok s') : P s' := by
  unfold openHyperlink at h
  obtain ⟨tx, _, h⟩ := bind_ok h
  obtain ⟨qs, _, h⟩ := bind_ok h
  obtain ⟨s1, h1, h⟩ := bind_ok h
  obtain ⟨rn, _, h⟩ := bind_ok h
  obtain ⟨s2, h2, h⟩ := bind_ok h
  obtain ⟨qe, _, h⟩ := bind_ok h
  have p1 := foldIds_preserves DC.startRange hstart _ s s1 hs h1
  have p2 := hins s1 rn s2 p1 h2
  exact foldIds_preserves DC.endRange hend _ s2 s' p2 h

end D2P
