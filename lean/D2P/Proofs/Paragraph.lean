import D2P.Proofs.InlineWalk
/-!
# Walking a paragraph that encloses no other paragraph appends exactly one paragraph
-/
namespace D2P

theorem leafParsL_append (xs ys : List Nest) : leafParsL (xs ++ ys) = leafParsL xs ++ leafParsL ys := by
  induction xs with
  | nil => simp [leafParsL]
  | cons x xs ih => simp [leafParsL, ih, List.append_assoc]

theorem leafParsL_dropLast_getLast (xs : List Nest) (x : Nest) (h : xs.getLast? = some x) :
    leafParsL xs = leafParsL xs.dropLast ++ leafParsT x := by
  have hne : xs ≠ [] := by intro e; subst e; simp at h
  have hl : xs.getLast hne = x := by
    rw [List.getLast?_eq_some_getLast hne] at h; exact Option.some.inj h
  have := List.dropLast_concat_getLast hne
  rw [hl] at this
  conv => lhs; rw [← this]
  rw [leafParsL_append]; simp [leafParsL]

/-- appending at the caret adds the new leaves at the very end of the document order -/
theorem leafPars_modAt_append (d : Nat) (xs r : List Nest) (x : Nest)
    (h : modAt d xs (fun ys => pure (ys ++ [x])) = .ok r) : leafParsL r = leafParsL xs ++ leafParsT x := by
  induction d generalizing xs r with
  | zero =>
    simp only [modAt] at h
    have := pure_ok h; subst this
    simp [leafParsL_append, leafParsL]
  | succ d ih =>
    simp only [modAt] at h
    split at h
    · rename_i ys hl
      obtain ⟨ys', hm, h⟩ := bind_ok h
      have := pure_ok h; subst this
      rw [leafParsL_append, leafParsL_dropLast_getLast xs _ hl]
      simp only [leafParsL, leafParsT, List.append_nil, List.append_assoc]
      rw [ih ys ys' hm]
    · simp at h

/-- what caret movements leave alone -/
structure Frame (s s' : DC) : Prop where
  leaves : leafParsL s'.root = leafParsL s.root
  openPars : s'.openPars = s.openPars
  queued : s'.queued = s.queued
  ranges : s'.ranges = s.ranges
  bullets : s'.bullets = s.bullets

theorem Frame.refl (s : DC) : Frame s s := ⟨rfl, rfl, rfl, rfl, rfl⟩
theorem Frame.trans {a b c : DC} (x : Frame a b) (y : Frame b c) : Frame a c :=
  ⟨y.leaves.trans x.leaves, y.openPars.trans x.openPars, y.queued.trans x.queued, y.ranges.trans x.ranges, y.bullets.trans x.bullets⟩

theorem drop_frame (s s' : DC) (h : s.drop = .ok s') : Frame s s' := by
  unfold DC.drop at h
  split at h
  · simp at h
  · obtain ⟨s1, h1, h⟩ := bind_ok h
    have := pure_ok h; subst this
    unfold DC.appendAtCaret at h1
    obtain ⟨r, hm, h1⟩ := bind_ok h1
    have := pure_ok h1; subst this
    exact ⟨by simp [leafPars_modAt_append _ _ _ _ hm, leafParsT, leafParsL], rfl, rfl, rfl, rfl⟩

theorem raise_frame (s s' : DC) (h : s.raise = .ok s') : Frame s s' := by
  unfold DC.raise at h
  split at h
  · simp at h
  · have := pure_ok h; subst this; exact ⟨rfl, rfl, rfl, rfl, rfl⟩

theorem setCaretAux_frame (f : Nat) (s s' : DC) (d : Nat) (n : Option Str) (h : DC.setCaretAux f s d n = .ok s') : Frame s s' := by
  induction f generalizing s with
  | zero => simp [DC.setCaretAux] at h
  | succ f ih =>
    simp only [DC.setCaretAux] at h
    split at h
    · have := pure_ok h; subst this; exact ⟨rfl, rfl, rfl, rfl, rfl⟩
    · split at h
      · obtain ⟨s1, h1, h⟩ := bind_ok h
        exact (drop_frame s s1 h1).trans (ih s1 h)
      · obtain ⟨s1, h1, h⟩ := bind_ok h
        have f1 : Frame s ({ s with lineage := s.lineage.set d none } : DC) := ⟨rfl, rfl, rfl, rfl, rfl⟩
        exact (f1.trans (raise_frame _ s1 h1)).trans (ih s1 h)

theorem setCaret_frame (s s' : DC) (d : Option Nat) (n : Option Str) (h : s.setCaret d n = .ok s') : Frame s s' := by
  unfold DC.setCaret at h
  cases d with
  | none => have := pure_ok h; subst this; exact Frame.refl s
  | some k => exact setCaretAux_frame 8 s s' k n h

end D2P

namespace D2P

theorem concludePar_spec (s s' : DC) (p : Par) (hp : s.openPars.getLast? = some p) (h : s.concludePar = .ok s') :
    leafParsL s'.root = leafParsL s.root ++ [p] ∧ s'.openPars = s.openPars.dropLast ∧
    s'.queued = s.queued ∧ s'.ranges = s.ranges ∧ s'.bullets = s.bullets := by
  unfold DC.concludePar at h
  simp only [hp] at h
  obtain ⟨s1, h1, h⟩ := bind_ok h
  have f1 := setCaret_frame _ s1 _ _ h1
  unfold DC.appendAtCaret at h
  obtain ⟨r, hm, h⟩ := bind_ok h
  have := pure_ok h; subst this
  refine ⟨?_, f1.openPars, f1.queued, f1.ranges, f1.bullets⟩
  simp only [leafPars_modAt_append _ _ _ _ hm, leafParsT, f1.leaves]

theorem commencePar_spec (html : Bool) (s s' : DC) (x : Xml) (c : Bool) (h : s.commencePar html (some x) c = .ok s') :
    ∃ p0, s'.openPars = s.openPars ++ [p0] ∧ p0.runs = s.queued ∧ p0.elem = x.id? ∧
      leafParsL s'.root = leafParsL s.root ∧ s'.queued = [] ∧ s'.ranges = s.ranges ∧ s'.bullets = s.bullets ∧
      (c = true → p0.lineage = tableLineage) ∧ getPStyle x = .ok p0.style ∧
      (c = false → ∃ sb, s.setCaret (some 4) (some x.localname) = .ok sb ∧ p0.lineage = sb.lineage) := by
  unfold DC.commencePar at h
  obtain ⟨s1, h1, h⟩ := bind_ok h
  obtain ⟨hs, _, h⟩ := bind_ok h
  obtain ⟨st, hst, h⟩ := bind_ok h
  have := pure_ok h; subst this
  have f1 := setCaret_frame s s1 _ _ h1
  refine ⟨{ elem := x.id?, htmlStyle := hs, style := st,
            lineage := if (some x).isSome && c then tableLineage else s1.lineage, runs := s1.queued }, ?_, ?_, rfl, f1.leaves, rfl, f1.ranges, f1.bullets, ?_, hst, ?_⟩
  · simp [f1.openPars]
  · simp [f1.queued]
  · intro hc; simp [hc]
  · intro hc; exact ⟨s1, by simpa using h1, by simp [hc]⟩

/-- closing a `w:p` while exactly one paragraph is open concludes that paragraph — whether it is the
element's own record or an implicit one (then the second `conclude_paragraph` finds nothing open) -/
theorem closeStep_par_one (cfg : PartCfg) (s : DC) (x : Xml) (p : Par) (hm : tagMember x.ptag = some "PARAGRAPH")
    (h1 : s.openPars = [p]) : closeStep cfg s x = s.concludePar := by
  have hcore : ∀ a, closeStepCore cfg a x = a.concludePar := by intro a; unfold closeStepCore; rw [hm]; rfl
  unfold closeStep DC.flushImplicit
  split
  · exact hcore s
  · simp only [h1, List.getLast?_singleton]
    split
    · cases hc : s.concludePar with
      | error e => rfl
      | ok s0 =>
        simp only [ok_bind]
        rw [hcore]
        obtain ⟨_, ho, _⟩ := concludePar_spec s s0 p (by rw [h1]; rfl) hc
        have : s0.openPars = [] := by rw [ho, h1]; rfl
        unfold DC.concludePar
        simp only [this, List.getLast?_nil]; rfl
    · exact hcore s

/-- the flush keeps the queued runs, the ranges and the list counters -/
theorem flushImplicit_keeps (s s' : DC) (d : Option Nat) (h : s.flushImplicit d = .ok s') :
    s'.queued = s.queued ∧ s'.ranges = s.ranges ∧ s'.bullets = s.bullets := by
  rcases flushImplicit_cases s s' d h with e | e
  · subst e; exact ⟨rfl, rfl, rfl⟩
  · cases hp : s.openPars.getLast? with
    | none => unfold DC.concludePar at e; simp only [hp] at e; have := pure_ok e; subst this; exact ⟨rfl, rfl, rfl⟩
    | some p0 =>
      obtain ⟨_, _, a3, a4, a5⟩ := concludePar_spec s s' p0 hp e
      exact ⟨a3, a4, a5⟩

theorem noImpl_of_closed {s : DC} (h : s.openPars = []) : NoImpl s := by
  intro p hp; rw [h] at hp; cases hp

theorem grow_noImpl {s s' : DC} {t : Str} (g : Grow s s' t) (h : NoImpl s) : NoImpl s' := by
  obtain ⟨r2, r3, hr2, hr3, hmeta, _⟩ := g.top
  intro p hp
  rw [hr3] at hp
  have e : r3.elem = r2.elem := by
    have := congrArg (·.1) hmeta; simpa [parMeta] using this
  rw [← Option.some.inj hp, e]; exact h r2 hr2

theorem modTop_noImpl (s : DC) (f : Par → Par) (hf : ∀ p, (f p).elem = p.elem) (h : NoImpl s) : NoImpl (s.modTop f) := by
  unfold DC.modTop
  cases hl : s.openPars.getLast? with
  | none => simp only; exact h
  | some q =>
    simp only
    intro p hp
    rw [List.getLast?_concat] at hp
    rw [← Option.some.inj hp, hf]; exact h q hl

/-- while a `w:p` element is open, the innermost open paragraph is not an implicit one -/
theorem openParagraph_noImpl (cfg : PartCfg) (s s' : DC) (c : Bool)
    (i : Nat) (p : Option Str) (t : QName) (m : NsMap) (a : List (QName × Str)) (tx tl : Option Str) (ks : List Xml)
    (h : openParagraph cfg s (.elem i p t m a tx tl ks) c = .ok s') : NoImpl s' := by
  unfold openParagraph at h
  obtain ⟨s1a, hc, h2⟩ := bind_ok h
  obtain ⟨p0, ho, _, helem, _⟩ := commencePar_spec cfg.html s s1a _ c hc
  obtain ⟨bb, _, h2⟩ := bind_ok h2
  obtain ⟨s1b, hi, h2⟩ := bind_ok h2
  have := pure_ok h2; subst this
  have n1 : NoImpl ({ s1a with bullets := (listPosition bb.1 (.elem i p t m a tx tl ks) ((Xml.elem i p t m a tx tl ks).id?.getD 0)).1 } : DC) := by
    intro q hq
    simp only [ho, List.getLast?_concat] at hq
    rw [← Option.some.inj hq, helem]; rfl
  have g1 := insertNewRun_grow cfg.html _ s1b bb.2 ⟨p0, by simp [ho]⟩ hi
  exact modTop_noImpl _ _ (fun _ => rfl) (grow_noImpl g1 n1)

theorem modTop_queued (s : DC) (f : Par → Par) : (s.modTop f).queued = s.queued := by
  unfold DC.modTop; split <;> rfl
theorem modTop_ranges (s : DC) (f : Par → Par) : (s.modTop f).ranges = s.ranges := by
  unfold DC.modTop; split <;> rfl

theorem paragraphTag_ne : (paragraphTag == documentTag) = false ∧ (paragraphTag == bodyTag) = false ∧
    (paragraphTag == hyperlinkTag) = false := by decide

theorem elemDepth_par (x : Xml) (hx : x.ptag = paragraphTag) (he : x.isElem = true) : elemDepth x = some 4 := by
  unfold elemDepth
  rw [hx]
  simp only [paragraphTag_ne.1, paragraphTag_ne.2.1, Bool.or_self, Bool.false_eq_true, if_false]
  cases x with
  | elem i p t m a tx tl ks =>
    have : ((Xml.elem i p t m a tx tl ks).ptag == paragraphTag) = true := by simp [hx]
    simp [nearestPar, this]
  | comment _ _ => simp [Xml.isElem] at he
  | pi _ => simp [Xml.isElem] at he

/-- **A paragraph that encloses no other paragraph** (its children are flat inline content), walked
from ANY collector state `sIn`: first a pending implicit paragraph is concluded
(`conclude_implicit_paragraph`, giving `s`); then exactly one paragraph record is added at the end
of the document order; its text is the queued note label, the list marker and the `inlineText` of
its children; open paragraphs around it, comment ranges and everything already collected are
untouched. -/
theorem walk_paragraph_gen (cfg : PartCfg) (num : Dict Str (List NumAttr)) (c : Bool) (sIn s' : DC)
    (i : Nat) (p : Option Str) (t : QName) (m : NsMap) (a : List (QName × Str)) (tx tl : Option Str) (ks : List Xml)
    (hx : (Xml.elem i p t m a tx tl ks).ptag = paragraphTag) (hk : flatInlineL ks = true)
    (h : walk cfg num c sIn (.elem i p t m a tx tl ks) = .ok s') :
    ∃ s, sIn.flushImplicit (some 4) = .ok s ∧ ∃ par body bb,
      leafParsL s'.root = leafParsL s.root ++ [par] ∧ s'.openPars = s.openPars ∧ s'.queued = [] ∧
      s'.ranges = s.ranges ∧ par.elem = some i ∧
      inlineTextL cfg ks = .ok body ∧ getBullet s.bullets (.elem i p t m a tx tl ks) i = .ok bb ∧
      parText par = sjoin (s.queued.map (·.text)) ++ bb.2 ++ body ∧
      s'.bullets = (listPosition bb.1 (.elem i p t m a tx tl ks) i).1 ∧
      (c = true → par.lineage = tableLineage) ∧ getPStyle (.elem i p t m a tx tl ks) = .ok par.style ∧
      (c = false → ∃ sa sb, s.setCaret (some 4) (some t.name) = .ok sa ∧
        sa.setCaret (some 4) (some (Xml.elem i p t m a tx tl ks).localname) = .ok sb ∧ par.lineage = sb.lineage) := by
  have hd := elemDepth_par _ hx rfl
  have hl : ((Xml.elem i p t m a tx tl ks).ptag == hyperlinkTag) = false := by rw [hx]; exact paragraphTag_ne.2.2
  simp only [walk, hd, hl, Bool.false_eq_true, if_false] at h
  obtain ⟨s1, h1, h⟩ := bind_ok h
  unfold DC.setCaretOpen at h1
  obtain ⟨s, h0, h1⟩ := bind_ok h1
  refine ⟨s, h0, ?_⟩
  clear h0
  have f1 := setCaret_frame s s1 _ _ h1
  obtain ⟨roots, hr, h⟩ := bind_ok h
  have := pure_ok hr; subst this
  obtain ⟨⟨s2, rec⟩, h2, h⟩ := bind_ok h
  -- the open step is `_open_paragraph`
  have hm : tagMember (Xml.elem i p t m a tx tl ks).ptag = some "PARAGRAPH" := by rw [hx]; exact tagMember_paragraph
  unfold openStep at h2
  simp only [hm] at h2
  have hrec : rec = true := (withTrue_ok h2).2
  have hop : openParagraph cfg s1 (.elem i p t m a tx tl ks) c = .ok s2 := (withTrue_ok h2).1
  subst hrec
  clear h2
  unfold openParagraph at hop
  obtain ⟨s1a, hc, h2⟩ := bind_ok hop
  obtain ⟨p0, ho, hruns, helem, hleaf, hq, hrg, hbl, hlin, hsty, hfree⟩ := commencePar_spec cfg.html s1 s1a _ c hc
  obtain ⟨bb, hb, h2⟩ := bind_ok h2
  obtain ⟨s1b, hi, h2⟩ := bind_ok h2
  have := pure_ok h2; subst this
  have hbb : getBullet s.bullets (.elem i p t m a tx tl ks) i = .ok bb := by
    rw [← f1.bullets, ← hbl]; simpa [Xml.id?] using hb
  -- state before inserting the marker: top paragraph is `p0`
  have htop0 : HasTop ({ s1a with bullets := (listPosition bb.1 (.elem i p t m a tx tl ks) ((Xml.elem i p t m a tx tl ks).id?.getD 0)).1 } : DC) :=
    ⟨p0, by simp [ho]⟩
  have g1 := insertNewRun_grow cfg.html _ s1b bb.2 htop0 hi
  obtain ⟨q0, q1, hq0, hq1, hmeta, htext⟩ := g1.top
  have hq0' : q0 = p0 := by
    have : (s1a.openPars).getLast? = some q0 := hq0
    rw [ho] at this; simpa using this.symm
  subst hq0'
  -- after setting `list_position`
  let s2' := s1b.modTop fun pp => { pp with listPos := (listPosition bb.1 (.elem i p t m a tx tl ks) ((Xml.elem i p t m a tx tl ks).id?.getD 0)).2 }
  have htop2 : ∃ q2, s2'.openPars.getLast? = some q2 ∧ parText q2 = parText q1 ∧ q2.elem = q1.elem ∧
      q2.lineage = q1.lineage ∧ q2.style = q1.style := by
    refine ⟨{ q1 with listPos := (listPosition bb.1 (.elem i p t m a tx tl ks) ((Xml.elem i p t m a tx tl ks).id?.getD 0)).2 }, ?_, rfl, rfl, rfl, rfl⟩
    simp only [s2']
    unfold DC.modTop; simp only [hq1]; simp
  obtain ⟨q2, hq2, ht2, he2, hl2, hs2⟩ := htop2
  have hbelow2 : s2'.openPars.dropLast = s.openPars := by
    simp only [s2']
    unfold DC.modTop; simp only [hq1]
    simp only [List.dropLast_append_of_ne_nil (List.cons_ne_nil _ _), List.dropLast_singleton, List.append_nil]
    rw [g1.below]; simp [ho, f1.openPars]
  have hroot2 : leafParsL s2'.root = leafParsL s.root := by
    have : s2'.root = s1b.root := (modTop_same _ _).1
    rw [this, g1.root]; simp [hleaf, f1.leaves]
  -- children
  obtain ⟨s3, h3, h⟩ := bind_ok h
  simp only [if_true] at h3
  obtain ⟨body, hbody, g3⟩ := walkL_flat cfg num ks _ s2' s3 hk ⟨q2, hq2⟩ h3
  obtain ⟨r2, r3, hr2, hr3, hmeta3, htext3⟩ := g3.top
  have : r2 = q2 := by rw [hq2] at hr2; exact (Option.some.inj hr2).symm
  subst this
  -- close step is `conclude_paragraph`
  obtain ⟨s4, h4, h⟩ := bind_ok h
  have hni3 : NoImpl s3 := by
    intro pp hpp
    rw [hr3] at hpp
    have e3 : r3.elem = r2.elem := by
      have := congrArg (·.1) hmeta3; simpa [parMeta] using this
    have e1 : q1.elem = q0.elem := by
      have := congrArg (·.1) hmeta; simpa [parMeta] using this
    rw [← Option.some.inj hpp, e3, he2, e1, helem]; rfl
  rw [closeStep_noImpl cfg s3 _ hni3] at h4
  unfold closeStepCore at h4
  simp only [hm] at h4
  obtain ⟨hl4, ho4, hq4, hrg4, hb4⟩ := concludePar_spec s3 s4 r3 hr3 h4
  have f5 := setCaret_frame s4 s' _ _ h
  refine ⟨r3, body, bb, ?_, ?_, ?_, ?_, ?_, hbody, hbb, ?_, ?_, ?_, ?_, ?_⟩
  · rw [f5.leaves, hl4, g3.root, hroot2]
  · rw [f5.openPars, ho4, g3.below, hbelow2]
  · rw [f5.queued, hq4, g3.queued]
    have : s2'.queued = s1b.queued := modTop_queued _ _
    rw [this, g1.queued]; exact hq
  · rw [f5.ranges, hrg4, g3.ranges]
    have : s2'.ranges = s1b.ranges := modTop_ranges _ _
    rw [this, g1.ranges]; simp [hrg, f1.ranges]
  · have e3 : r3.elem = r2.elem := by
      have := congrArg (·.1) hmeta3; simpa [parMeta] using this
    have e1 : q1.elem = q0.elem := by
      have := congrArg (·.1) hmeta; simpa [parMeta] using this
    rw [e3, he2, e1, helem]; rfl
  · rw [htext3, ht2, htext]
    simp [parText, hruns, f1.queued]
  · rw [f5.bullets, hb4, g3.bullets]
    have : s2'.bullets = s1b.bullets := by simp only [s2']; unfold DC.modTop; split <;> rfl
    rw [this, g1.bullets]; rfl
  · intro hc
    have e3 : r3.lineage = r2.lineage := by
      have := congrArg (fun x => x.2.2.2.1) hmeta3; simpa [parMeta] using this
    have e1 : q1.lineage = q0.lineage := by
      have := congrArg (fun x => x.2.2.2.1) hmeta; simpa [parMeta] using this
    rw [e3, hl2, e1]; exact hlin hc
  · have e3 : r3.style = r2.style := by
      have := congrArg (fun x => x.2.2.1) hmeta3; simpa [parMeta] using this
    have e1 : q1.style = q0.style := by
      have := congrArg (fun x => x.2.2.1) hmeta; simpa [parMeta] using this
    rw [e3, hs2, e1]; exact hsty
  · intro hc'
    obtain ⟨sb, hsb, hlb⟩ := hfree hc'
    have e3 : r3.lineage = r2.lineage := by
      have := congrArg (fun x => x.2.2.2.1) hmeta3; simpa [parMeta] using this
    have e1 : q1.lineage = q0.lineage := by
      have := congrArg (fun x => x.2.2.2.1) hmeta; simpa [parMeta] using this
    exact ⟨s1, sb, h1, hsb, by rw [e3, hl2, e1]; exact hlb⟩

theorem vmergeDo_openPars (ti ri : Nat) (s s' : DC) (h : vmergeDo ti ri s = .ok s') : s'.openPars = s.openPars := by
  unfold vmergeDo at h
  obtain ⟨s1, h1, h⟩ := bind_ok h
  have f1 := (setCaret_frame s s1 _ _ h1).openPars
  obtain ⟨_, _, h⟩ := bind_ok h
  obtain ⟨_, _, h⟩ := bind_ok h
  split at h
  · have := pure_ok h; subst this; exact f1
  · split at h
    · have := pure_ok h; subst this; exact f1
    · have := pure_ok h; subst this; exact f1

theorem spanStep_openPars (dup : Bool) (ti ri : Nat) (s s' : DC) (h : spanStep dup ti ri s = .ok s') : s'.openPars = s.openPars := by
  unfold spanStep at h
  obtain ⟨s1, h1, h⟩ := bind_ok h
  have f1 := (setCaret_frame s s1 _ _ h1).openPars
  obtain ⟨_, _, h⟩ := bind_ok h
  have := pure_ok h; subst this; exact f1

theorem iterateM_openPars (f : DC → M DC) (hf : ∀ a b, f a = .ok b → b.openPars = a.openPars) :
    ∀ (n : Nat) (s s' : DC), iterateM f n s = .ok s' → s'.openPars = s.openPars
  | 0, s, s', h => by simp only [iterateM] at h; have := pure_ok h; subst this; rfl
  | n+1, s, s', h => by
    simp only [iterateM] at h
    obtain ⟨s1, h1, h⟩ := bind_ok h
    exact (iterateM_openPars f hf n s1 s' h).trans (hf s s1 h1)

/-- `_close_table_cell` works on the tree only: the open paragraphs are not touched -/
theorem closeTableCell_openPars (dup : Bool) (s s' : DC) (tc : Xml) (h : closeTableCell dup s tc = .ok s') :
    s'.openPars = s.openPars := by
  unfold closeTableCell at h
  split at h
  · have := pure_ok h; subst this; rfl
  · obtain ⟨pr, _, h⟩ := bind_ok h
    obtain ⟨cap, _, h⟩ := bind_ok h
    split at h
    · have := pure_ok h; subst this; rfl
    · obtain ⟨s1, h1, h⟩ := bind_ok h
      obtain ⟨n, _, h⟩ := bind_ok h
      have e1 : s1.openPars = s.openPars := by
        unfold vmergeStep at h1
        split at h1
        · exact vmergeDo_openPars _ _ s s1 h1
        · have := pure_ok h1; subst this; rfl
      exact (iterateM_openPars _ (fun a b hab => spanStep_openPars dup _ _ a b hab) n s1 s' h).trans e1

/-- the same with no implicit paragraph pending: nothing is concluded first -/
theorem walk_paragraph (cfg : PartCfg) (num : Dict Str (List NumAttr)) (c : Bool) (s s' : DC)
    (i : Nat) (p : Option Str) (t : QName) (m : NsMap) (a : List (QName × Str)) (tx tl : Option Str) (ks : List Xml)
    (hx : (Xml.elem i p t m a tx tl ks).ptag = paragraphTag) (hk : flatInlineL ks = true) (hni : NoImpl s)
    (h : walk cfg num c s (.elem i p t m a tx tl ks) = .ok s') :
    ∃ par body bb,
      leafParsL s'.root = leafParsL s.root ++ [par] ∧ s'.openPars = s.openPars ∧ s'.queued = [] ∧
      s'.ranges = s.ranges ∧ par.elem = some i ∧
      inlineTextL cfg ks = .ok body ∧ getBullet s.bullets (.elem i p t m a tx tl ks) i = .ok bb ∧
      parText par = sjoin (s.queued.map (·.text)) ++ bb.2 ++ body ∧
      s'.bullets = (listPosition bb.1 (.elem i p t m a tx tl ks) i).1 ∧
      (c = true → par.lineage = tableLineage) ∧ getPStyle (.elem i p t m a tx tl ks) = .ok par.style ∧
      (c = false → ∃ sa sb, s.setCaret (some 4) (some t.name) = .ok sa ∧
        sa.setCaret (some 4) (some (Xml.elem i p t m a tx tl ks).localname) = .ok sb ∧ par.lineage = sb.lineage) := by
  obtain ⟨s0, h0, rest⟩ := walk_paragraph_gen cfg num c s s' i p t m a tx tl ks hx hk h
  rw [flushImplicit_noImpl s _ hni] at h0
  cases h0
  exact rest

end D2P
