import D2P.Proofs.InlineWalk
/-!
# Erasing the text: what the walk does to the *structure* does not depend on `html`

`absDC s` forgets everything textual in a collector state: the runs and the html style of every
paragraph record (finished or open), the texts of queued runs (their number is kept: it decides
whether a final anonymous paragraph is made), the comment ranges.  What is kept: the nesting of
lists, one record per paragraph with its source identity, style name, lineage, list position and
copy mark; the caret; the lineage register; the counters.

The operations that move the caret or copy cells do not look at text at all: they commute with
`absDC` (`*_abs`).  The operations that add text change nothing that `absDC` keeps, whatever the
text is (`*_same`).  Both feed `walk_same` in Props/C19Html.lean.
-/
namespace D2P

def erasePar (p : Par) : Par := { p with runs := [], htmlStyle := [] }

mutual
def eraseT : Nest → Nest
  | .par p => .par (erasePar p)
  | .list xs => .list (eraseL xs)
def eraseL : List Nest → List Nest
  | [] => []
  | x :: xs => eraseT x :: eraseL xs
end

theorem eraseL_map : ∀ (xs : List Nest), eraseL xs = xs.map eraseT
  | [] => rfl
  | x :: xs => by simp [eraseL, eraseL_map xs]

def absDC (s : DC) : DC :=
  { root := eraseL s.root, depth := s.depth, lineage := s.lineage, openPars := s.openPars.map erasePar,
    queued := s.queued.map (fun _ => ({ style := [] } : Run)), ranges := [], bullets := s.bullets }

theorem erasePar_idem (p : Par) : erasePar (erasePar p) = erasePar p := rfl

mutual
theorem eraseT_idem : (x : Nest) → eraseT (eraseT x) = eraseT x
  | .par p => by simp [eraseT, erasePar_idem]
  | .list xs => by simp only [eraseT]; rw [eraseL_idem xs]
theorem eraseL_idem : (xs : List Nest) → eraseL (eraseL xs) = eraseL xs
  | [] => rfl
  | x :: xs => by simp only [eraseL]; rw [eraseT_idem x, eraseL_idem xs]
end

theorem absDC_idem (s : DC) : absDC (absDC s) = absDC s := by
  simp [absDC, eraseL_idem, List.map_map, Function.comp_def, erasePar_idem]

theorem eraseL_append (xs ys : List Nest) : eraseL (xs ++ ys) = eraseL xs ++ eraseL ys := by
  simp [eraseL_map]

theorem eraseL_getLast? (xs : List Nest) : (eraseL xs).getLast? = xs.getLast?.map eraseT := by
  simp [eraseL_map, List.getLast?_map]

theorem eraseL_dropLast (xs : List Nest) : (eraseL xs).dropLast = eraseL xs.dropLast := by
  simp [eraseL_map, List.map_dropLast]

theorem eraseL_length (xs : List Nest) : (eraseL xs).length = xs.length := by simp [eraseL_map]

theorem eraseL_getElem? (xs : List Nest) (i : Nat) : (eraseL xs)[i]? = xs[i]?.map eraseT := by
  simp [eraseL_map]

mutual
theorem eraseT_markCopy : (x : Nest) → eraseT (markCopyT x) = markCopyT (eraseT x)
  | .par p => by simp [eraseT, markCopyT, erasePar]
  | .list xs => by simp only [eraseT, markCopyT]; rw [eraseL_markCopy xs]
theorem eraseL_markCopy : (xs : List Nest) → eraseL (markCopyL xs) = markCopyL (eraseL xs)
  | [] => rfl
  | x :: xs => by simp only [eraseL, markCopyL]; rw [eraseT_markCopy x, eraseL_markCopy xs]
end

/-! ## tree operations commute with erasure -/

theorem modAt_erase (f g : List Nest → M (List Nest))
    (hfg : ∀ ys ys', f ys = .ok ys' → g (eraseL ys) = .ok (eraseL ys')) :
    ∀ (d : Nat) (xs r : List Nest), modAt d xs f = .ok r → modAt d (eraseL xs) g = .ok (eraseL r)
  | 0, xs, r, h => by simp only [modAt] at h ⊢; exact hfg _ _ h
  | d+1, xs, r, h => by
    simp only [modAt] at h ⊢
    rw [eraseL_getLast?]
    cases hl : xs.getLast? with
    | none => simp [hl] at h
    | some l =>
      cases l with
      | par p => simp [hl] at h
      | list ys =>
        simp only [hl] at h
        obtain ⟨ys', h1, h2⟩ := bind_ok h
        have := pure_ok h2; subst this
        simp only [Option.map_some, eraseT, modAt_erase f g hfg d ys ys' h1, ok_bind, eraseL_dropLast, eraseL_append, eraseL]
        rfl

theorem appendAtCaret_abs (s s' : DC) (x : Nest) (h : s.appendAtCaret x = .ok s') :
    (absDC s).appendAtCaret (eraseT x) = .ok (absDC s') := by
  unfold DC.appendAtCaret at h ⊢
  obtain ⟨r, h1, h2⟩ := bind_ok h
  have := pure_ok h2; subst this
  have := modAt_erase (fun xs => pure (xs ++ [x])) (fun xs => pure (xs ++ [eraseT x]))
    (by intro ys ys' hy; have := pure_ok hy; subst this; simp [eraseL_append, eraseL]; rfl) (s.depth - 1) s.root r h1
  simp only [absDC, this, ok_bind]
  rfl

theorem drop_abs (s s' : DC) (h : s.drop = .ok s') : (absDC s).drop = .ok (absDC s') := by
  unfold DC.drop at h ⊢
  have hd : (absDC s).depth = s.depth := rfl
  rw [hd]
  split
  · rename_i hge; simp [hge] at h
  · rename_i hge
    simp only [hge, if_false] at h
    obtain ⟨s1, h1, h2⟩ := bind_ok h
    have := pure_ok h2; subst this
    have := appendAtCaret_abs s s1 (.list []) h1
    simp only [eraseT, eraseL] at this
    simp only [this, ok_bind]
    rfl

theorem raise_abs (s s' : DC) (h : s.raise = .ok s') : (absDC s).raise = .ok (absDC s') := by
  unfold DC.raise at h ⊢
  have hd : (absDC s).depth = s.depth := rfl
  rw [hd]
  split
  · rename_i he; simp [he] at h
  · rename_i he
    simp only [he] at h
    have := pure_ok h; subst this
    rfl

theorem setCaretAux_abs : ∀ (f : Nat) (s s' : DC) (d : Nat) (n : Option Str),
    DC.setCaretAux f s d n = .ok s' → DC.setCaretAux f (absDC s) d n = .ok (absDC s')
  | 0, s, s', d, n, h => by simp [DC.setCaretAux] at h
  | f+1, s, s', d, n, h => by
    simp only [DC.setCaretAux] at h ⊢
    have hd : (absDC s).depth = s.depth := rfl
    rw [hd]
    split
    · rename_i he
      simp only [he, if_true] at h
      have := pure_ok h; subst this; rfl
    · rename_i he
      simp only [he, if_false] at h
      split
      · rename_i hlt
        simp only [hlt, if_true] at h
        obtain ⟨s1, h1, h2⟩ := bind_ok h
        simp only [drop_abs s s1 h1, ok_bind]
        exact setCaretAux_abs f s1 s' d n h2
      · rename_i hlt
        simp only [hlt, if_false] at h
        obtain ⟨s1, h1, h2⟩ := bind_ok h
        show (DC.raise (absDC { s with lineage := s.lineage.set d none }) >>= fun s1 => DC.setCaretAux f s1 d n) = _
        rw [raise_abs _ s1 h1]
        exact setCaretAux_abs f s1 s' d n h2

theorem setCaret_abs (s s' : DC) (d : Option Nat) (n : Option Str) (h : s.setCaret d n = .ok s') :
    (absDC s).setCaret d n = .ok (absDC s') := by
  unfold DC.setCaret at h ⊢
  cases d with
  | none => have := pure_ok h; subst this; rfl
  | some d => exact setCaretAux_abs 8 s s' d n h

theorem getRow_erase (root : List Nest) (ti ri : Nat) (cells : List Nest) (h : getRow root ti ri = .ok cells) :
    getRow (eraseL root) ti ri = .ok (eraseL cells) := by
  unfold getRow at h ⊢
  rw [eraseL_getElem?]
  cases ht : root[ti]? with
  | none => simp [ht] at h
  | some t =>
    cases t with
    | par p => simp [ht] at h
    | list rows =>
      simp only [ht] at h
      simp only [Option.map_some, eraseT, eraseL_getElem?]
      cases hr : rows[ri]? with
      | none => simp [hr] at h
      | some r =>
        cases r with
        | par p => simp [hr] at h
        | list cs =>
          simp only [hr] at h
          have := pure_ok h; subst this
          rfl

theorem rowCount_erase (root : List Nest) (ti : Nat) : rowCount (eraseL root) ti = rowCount root ti := by
  unfold rowCount
  rw [eraseL_getElem?]
  cases root[ti]? with
  | none => rfl
  | some t => cases t with
    | par p => rfl
    | list rows => simp [eraseT, eraseL_length]

theorem setRow_erase (root : List Nest) (ti ri : Nat) (cells : List Nest) :
    eraseL (setRow root ti ri cells) = setRow (eraseL root) ti ri (eraseL cells) := by
  unfold setRow
  simp only [eraseL_map]
  apply List.ext_getElem?
  intro i
  simp only [List.getElem?_map, List.getElem?_modify]
  cases root[i]? with
  | none => rfl
  | some t =>
    by_cases hi : ti = i
    · cases t with
      | par p => simp [hi, eraseT]
      | list rows => simp [hi, eraseT, eraseL_map, List.map_set]
    · simp [hi]

theorem captureRow_erase (root : List Nest) : captureRow (eraseL root) = captureRow root := by
  unfold captureRow
  rw [eraseL_getLast?]
  cases root.getLast? with
  | none => rfl
  | some l => cases l with
    | par p => rfl
    | list rows =>
      simp only [Option.map_some, eraseT, eraseL_length]
      cases rows <;> simp [eraseL]

theorem newCell_erase (dup : Bool) (cells : List Nest) : eraseT (newCell dup cells) = newCell dup (eraseL cells) := by
  unfold newCell
  rw [eraseL_getLast?]
  cases dup with
  | false => rfl
  | true =>
    cases cells.getLast? with
    | none => rfl
    | some c => simp [eraseT_markCopy]

theorem vmergeDo_abs (ti ri : Nat) (s s' : DC) (h : vmergeDo ti ri s = .ok s') : vmergeDo ti ri (absDC s) = .ok (absDC s') := by
  unfold vmergeDo at h ⊢
  obtain ⟨s1, h1, h⟩ := bind_ok h
  obtain ⟨thisTr, h2, h⟩ := bind_ok h
  obtain ⟨prevTr, h3, h⟩ := bind_ok h
  have hr1 : (absDC s1).root = eraseL s1.root := rfl
  simp only [setCaret_abs s s1 _ _ h1, ok_bind, hr1, getRow_erase _ _ _ _ h2, rowCount_erase, getRow_erase _ _ _ _ h3]
  have he : (eraseL thisTr).isEmpty = thisTr.isEmpty := by cases thisTr <;> rfl
  rw [he]
  split
  · rename_i hem; simp only [hem, if_true] at h; have := pure_ok h; subst this; rfl
  · rename_i hem
    simp only [hem] at h
    rw [eraseL_getElem?, eraseL_length]
    cases ha : prevTr[thisTr.length - 1]? with
    | none => simp only [ha] at h; have := pure_ok h; subst this; rfl
    | some above =>
      simp only [ha] at h; have := pure_ok h; subst this
      simp only [Option.map_some]
      show Except.ok _ = Except.ok _
      congr 1
      simp only [absDC, setRow_erase, eraseL_append, eraseL_dropLast, eraseL, eraseT_markCopy]

theorem vmergeStep_abs (dup isCont : Bool) (nrows ti ri : Nat) (s s' : DC) (h : vmergeStep dup isCont nrows ti ri s = .ok s') :
    vmergeStep dup isCont nrows ti ri (absDC s) = .ok (absDC s') := by
  unfold vmergeStep at h ⊢
  split
  · rename_i hc; rw [if_pos hc] at h; exact vmergeDo_abs ti ri s s' h
  · rename_i hc; rw [if_neg hc] at h; have := pure_ok h; subst this; rfl

theorem spanStep_abs (dup : Bool) (ti ri : Nat) (s s' : DC) (h : spanStep dup ti ri s = .ok s') :
    spanStep dup ti ri (absDC s) = .ok (absDC s') := by
  unfold spanStep at h ⊢
  obtain ⟨s1, h1, h⟩ := bind_ok h
  obtain ⟨thisTr, h2, h⟩ := bind_ok h
  have := pure_ok h; subst this
  have hr1 : (absDC s1).root = eraseL s1.root := rfl
  simp only [setCaret_abs s s1 _ _ h1, ok_bind, hr1, getRow_erase _ _ _ _ h2]
  show Except.ok _ = Except.ok _
  congr 1
  simp only [absDC, setRow_erase, eraseL_append, eraseL, newCell_erase]

theorem iterateM_abs (f : DC → M DC) (hf : ∀ s s', f s = .ok s' → f (absDC s) = .ok (absDC s')) :
    ∀ (n : Nat) (s s' : DC), iterateM f n s = .ok s' → iterateM f n (absDC s) = .ok (absDC s')
  | 0, s, s', h => by simp only [iterateM] at h ⊢; have := pure_ok h; subst this; rfl
  | n+1, s, s', h => by
    simp only [iterateM] at h ⊢
    obtain ⟨s1, h1, h⟩ := bind_ok h
    simp only [hf s s1 h1, ok_bind]
    exact iterateM_abs f hf n s1 s' h

/-- closing a cell reads the cell's properties and the tree's shape, never a text -/
theorem closeTableCell_abs (dup : Bool) (s s' : DC) (tc : Xml) (h : closeTableCell dup s tc = .ok s') :
    closeTableCell dup (absDC s) tc = .ok (absDC s') := by
  unfold closeTableCell at h ⊢
  split
  · rename_i hn; rw [if_pos hn] at h; have := pure_ok h; subst this; rfl
  · rename_i hn
    rw [if_neg hn] at h
    obtain ⟨pr, hp, h⟩ := bind_ok h
    obtain ⟨cap, hc, h⟩ := bind_ok h
    have hr : (absDC s).root = eraseL s.root := rfl
    simp only [hp, ok_bind, hr, captureRow_erase, hc]
    cases cap with
    | none => simp only at h ⊢; have := pure_ok h; subst this; rfl
    | some t =>
      obtain ⟨ti, ri, nrows⟩ := t
      simp only at h ⊢
      obtain ⟨s1, h1, h⟩ := bind_ok h
      obtain ⟨n, hn', h⟩ := bind_ok h
      simp only [vmergeStep_abs _ _ _ _ _ s s1 h1, ok_bind, hn']
      exact iterateM_abs _ (spanStep_abs dup ti ri) n s1 s' h

end D2P
