import D2P.Spec.Inline
import D2P.Proofs.ShapeWalk
/-!
# Walking flat inline content only appends its `inlineText` to the open paragraph
-/
namespace D2P

def parText (p : Par) : Str := sjoin (p.runs.map (·.text))

/-- text of the innermost open paragraph -/
def topText (s : DC) : Str := match s.openPars.getLast? with | some p => parText p | none => []

def parMeta (p : Par) : Option Nat × List Str × Str × Lineage × (Option Str × List Nat) × Bool :=
  (p.elem, p.htmlStyle, p.style, p.lineage, p.listPos, p.copy)

/-- `s'` is `s` with `t` appended to the text of the innermost open paragraph, nothing else changed -/
structure Grow (s s' : DC) (t : Str) : Prop where
  root : s'.root = s.root
  depth : s'.depth = s.depth
  lineage : s'.lineage = s.lineage
  queued : s'.queued = s.queued
  ranges : s'.ranges = s.ranges
  bullets : s'.bullets = s.bullets
  below : s'.openPars.dropLast = s.openPars.dropLast
  top : ∃ p p', s.openPars.getLast? = some p ∧ s'.openPars.getLast? = some p' ∧
          parMeta p' = parMeta p ∧ parText p' = parText p ++ t

def HasTop (s : DC) : Prop := ∃ p, s.openPars.getLast? = some p

theorem Grow.hasTop {s s' : DC} {t : Str} (g : Grow s s' t) : HasTop s' := by
  obtain ⟨p, p', _, h, _⟩ := g.top; exact ⟨p', h⟩

theorem Grow.refl (s : DC) (h : HasTop s) : Grow s s [] := by
  obtain ⟨p, hp⟩ := h
  exact ⟨rfl, rfl, rfl, rfl, rfl, rfl, rfl, p, p, hp, hp, rfl, by simp⟩

theorem Grow.trans {s1 s2 s3 : DC} {t u : Str} (a : Grow s1 s2 t) (b : Grow s2 s3 u) : Grow s1 s3 (t ++ u) := by
  obtain ⟨p, p', h1, h2, hm, ht⟩ := a.top
  obtain ⟨q, q', k1, k2, km, kt⟩ := b.top
  have : q = p' := by rw [h2] at k1; exact (Option.some.inj k1).symm
  subst this
  exact ⟨b.root.trans a.root, b.depth.trans a.depth, b.lineage.trans a.lineage, b.queued.trans a.queued,
    b.ranges.trans a.ranges, b.bullets.trans a.bullets, b.below.trans a.below,
    p, q', h1, k2, km.trans hm, by rw [kt, ht, List.append_assoc]⟩

theorem getLast?_dropLast_append {α : Type} (xs : List α) (x : α) : (xs.dropLast ++ [x]).getLast? = some x := by simp

theorem sjoin_append (xs ys : List Str) : sjoin (xs ++ ys) = sjoin xs ++ sjoin ys := by
  induction xs with
  | nil => rfl
  | cons x xs ih => simp [sjoin, ih, List.append_assoc]

/-- modifying the innermost open paragraph -/
theorem modTop_grow (s : DC) (f : Par → Par) (t : Str) (h : HasTop s)
    (hm : ∀ p, parMeta (f p) = parMeta p) (ht : ∀ p, parText (f p) = parText p ++ t) : Grow s (s.modTop f) t := by
  obtain ⟨p, hp⟩ := h
  unfold DC.modTop
  simp only [hp]
  refine ⟨rfl, rfl, rfl, rfl, rfl, rfl, ?_, p, f p, hp, by simp, hm p, ht p⟩
  simp [List.dropLast_append_of_ne_nil]

theorem ensurePar_hasTop (html : Bool) (s : DC) (h : HasTop s) : s.ensurePar html = .ok s := by
  obtain ⟨p, hp⟩ := h
  unfold DC.ensurePar
  have : s.openPars.isEmpty = false := by cases ho : s.openPars <;> simp_all
  simp only [this, Bool.false_eq_true, if_false]
  rfl

theorem ensureRun_grow (html : Bool) (s s' : DC) (h : HasTop s) (he : s.ensureRun html = .ok s') : Grow s s' [] := by
  unfold DC.ensureRun at he
  rw [ensurePar_hasTop html s h] at he
  obtain ⟨s0, h0, he⟩ := bind_ok he
  cases h0
  have := pure_ok he; subst this
  apply modTop_grow s _ [] h
  · intro p; split <;> rfl
  · intro p; split
    · rename_i hr
      have : p.runs = [] := by simpa using hr
      simp [parText, this, sjoin]
    · simp

theorem appendToLastRun_text (p : Par) (t : Str) (h : p.runs ≠ []) : parText (appendToLastRun p t) = parText p ++ t := by
  unfold appendToLastRun
  have : ∃ r, p.runs.getLast? = some r := by
    cases hr : p.runs.getLast? with
    | none => simp [List.getLast?_eq_none_iff] at hr; exact absurd hr h
    | some r => exact ⟨r, rfl⟩
  obtain ⟨r, hr⟩ := this
  simp only [hr, parText, List.map_append, List.map_cons, List.map_nil, sjoin_append, sjoin, List.append_nil]
  have hne : p.runs ≠ [] := h
  have e : p.runs = p.runs.dropLast ++ [r] := by
    have := List.dropLast_concat_getLast hne
    rw [List.getLast?_eq_some_getLast hne] at hr
    rw [← Option.some.inj hr]; exact this.symm
  conv => rhs; rw [e]
  simp [List.map_append, sjoin_append, sjoin, List.append_assoc]

theorem addCode_grow (html : Bool) (s s' : DC) (t : Str) (h : HasTop s) (he : s.addCode html t = .ok s') : Grow s s' t := by
  unfold DC.addCode at he
  obtain ⟨s1, h1, he⟩ := bind_ok he
  have := pure_ok he; subst this
  have g1 := ensureRun_grow html s s1 h h1
  -- after ensureRun the top paragraph has at least one run
  have hruns : ∀ p, s1.openPars.getLast? = some p → p.runs ≠ [] := by
    unfold DC.ensureRun at h1
    rw [ensurePar_hasTop html s h] at h1
    obtain ⟨s0, h0, h1⟩ := bind_ok h1
    cases h0
    have := pure_ok h1; subst this
    obtain ⟨p0, hp0⟩ := h
    intro p hp
    unfold DC.modTop at hp
    simp only [hp0] at hp
    simp at hp; subst hp
    split
    · simp
    · rename_i hr; intro e; apply hr; simp [e]
  obtain ⟨q, hq⟩ := g1.hasTop
  have g2 : Grow s1 (s1.modTop fun p => appendToLastRun p t) t := by
    unfold DC.modTop
    simp only [hq]
    refine ⟨rfl, rfl, rfl, rfl, rfl, rfl, by simp [List.dropLast_append_of_ne_nil], q, appendToLastRun q t, hq, by simp, ?_, ?_⟩
    · unfold appendToLastRun; split <;> rfl
    · exact appendToLastRun_text q t (hruns q hq)
  have := g1.trans g2
  simpa using this

theorem insertNewRun_grow (html : Bool) (s s' : DC) (t : Str) (h : HasTop s) (he : s.insertNewRun html t = .ok s') :
    Grow s s' t := by
  unfold DC.insertNewRun at he
  obtain ⟨s1, h1, he⟩ := bind_ok he
  have := pure_ok he; subst this
  have g1 := ensureRun_grow html s s1 h h1
  have g2 := modTop_grow s1 (fun p => { p with runs := p.runs ++ [{ style := [], text := t }, { style := lastRunStyle p }] }) t
    g1.hasTop (fun p => rfl) (fun p => by simp [parText, List.map_append, sjoin_append, sjoin])
  have := g1.trans g2
  simpa using this

theorem commenceRun_grow (html : Bool) (s s' : DC) (e : Option Xml) (h : HasTop s)
    (he : s.commenceRun html e = .ok s') : Grow s s' [] := by
  unfold DC.commenceRun at he
  obtain ⟨st, _, he⟩ := bind_ok he
  rw [ensurePar_hasTop html s h] at he
  obtain ⟨s0, h0, he⟩ := bind_ok he
  cases h0
  have := pure_ok he; subst this
  exact modTop_grow s _ [] h (fun p => rfl) (fun p => by simp [parText, List.map_append, sjoin_append, sjoin])

end D2P
