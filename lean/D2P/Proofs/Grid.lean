import D2P.Proofs.TotalCell
import D2P.Proofs.Paragraph
import D2P.Props.C04
/-!
# The tree seen along the caret spine (lemmas for C04)

At caret depth 2 / 3 / 4 the collector's tree has the form `T2 T R` / `T3 T R C` / `T4 T R C P`:
`T` the finished tables, `R` the finished rows of the table being filled, `C` the finished cells of
the row being filled, `P` the paragraphs of the cell being filled. Moving the caret and appending
at the caret are rewritten on these forms.
-/
namespace D2P

def T2 (T R : List Nest) : List Nest := T ++ [.list R]
def T3 (T R C : List Nest) : List Nest := T ++ [.list (R ++ [.list C])]
def T4 (T R C P : List Nest) : List Nest := T ++ [.list (R ++ [.list (C ++ [.list P])])]

theorem T3_eq_T2 (T R C : List Nest) : T3 T R C = T2 T (R ++ [.list C]) := rfl
theorem T4_eq_T3 (T R C P : List Nest) : T4 T R C P = T3 T R (C ++ [.list P]) := rfl

theorem modAt1_T2 (T R : List Nest) (f : List Nest → M (List Nest)) :
    modAt 1 (T2 T R) f = (f R) >>= fun R' => pure (T2 T R') := by
  simp [modAt, T2]

theorem modAt2_T3 (T R C : List Nest) (f : List Nest → M (List Nest)) :
    modAt 2 (T3 T R C) f = (f C) >>= fun C' => pure (T3 T R C') := by
  simp only [modAt, T3, List.getLast?_append, List.getLast?_singleton, Option.some_or, List.dropLast_concat]
  cases f C <;> simp [bind, Except.bind, pure, Except.pure]

theorem modAt3_T4 (T R C P : List Nest) (f : List Nest → M (List Nest)) :
    modAt 3 (T4 T R C P) f = (f P) >>= fun P' => pure (T4 T R C P') := by
  simp only [modAt, T4, List.getLast?_append, List.getLast?_singleton, Option.some_or, List.dropLast_concat]
  cases f P <;> simp [bind, Except.bind, pure, Except.pure]

/-- raising the caret (or leaving it where it is) does not touch the tree -/
theorem setCaret_up (s : DC) (d : Nat) (n : Option Str) (h1 : 1 ≤ d) (h2 : d ≤ s.depth) (h4 : s.depth ≤ 4) :
    ∃ s', s.setCaret (some d) n = .ok s' ∧ s'.root = s.root ∧ s'.depth = d ∧ Frame s s' := by
  unfold DC.setCaret
  have key : ∀ (k f : Nat) (s : DC), s.depth - d = k → k < f → d ≤ s.depth →
      ∃ s', DC.setCaretAux f s d n = .ok s' ∧ s'.root = s.root ∧ s'.depth = d ∧ Frame s s' := by
    intro k
    induction k with
    | zero =>
      intro f s hk hf hle
      have he : s.depth = d := by omega
      cases f with
      | zero => omega
      | succ f => exact ⟨{ s with lineage := s.lineage.set d n }, by simp [DC.setCaretAux, he, pure, Except.pure], rfl, he, ⟨rfl, rfl, rfl, rfl, rfl⟩⟩
    | succ k ih =>
      intro f s hk hf hle
      cases f with
      | zero => omega
      | succ f =>
        have hne : (s.depth == d) = false := by simp; omega
        have hlt : ¬ s.depth < d := by omega
        have hn1 : (s.depth == 1) = false := by simp; omega
        obtain ⟨s', hs', hr, hd, hfr⟩ := ih f ({ s with lineage := s.lineage.set d none, depth := s.depth - 1 }) (by simp; omega) (by omega) (by simp; omega)
        refine ⟨s', ?_, hr, hd, ⟨hfr.leaves, hfr.openPars, hfr.queued, hfr.ranges, hfr.bullets⟩⟩
        simp only [DC.setCaretAux, hne, Bool.false_eq_true, if_false, hlt, DC.raise, hn1, pure, Except.pure, ok_bind]
        exact hs'
  exact key _ 8 s rfl (by omega) h2

/-- dropping the caret by one level appends an empty list at the caret -/
theorem setCaret_down1 (s : DC) (n : Option Str) (h4 : s.depth < 4) (r : List Nest)
    (hr : modAt (s.depth - 1) s.root (fun xs => pure (xs ++ [.list []])) = .ok r) :
    ∃ s', s.setCaret (some (s.depth + 1)) n = .ok s' ∧ s'.root = r ∧ s'.depth = s.depth + 1 ∧
      s'.openPars = s.openPars ∧ s'.queued = s.queued ∧ s'.bullets = s.bullets ∧ s'.ranges = s.ranges := by
  unfold DC.setCaret
  have hne : (s.depth == s.depth + 1) = false := by simp
  have hge : ¬ s.depth ≥ 4 := by omega
  refine ⟨{ s with root := r, depth := s.depth + 1, lineage := s.lineage.set (s.depth + 1) n }, ?_, rfl, rfl, rfl, rfl, rfl, rfl⟩
  simp only [pure, Except.pure] at hr
  simp only [DC.setCaretAux, hne, Bool.false_eq_true, if_false, Nat.lt_succ_self, if_true, DC.drop, hge,
    DC.appendAtCaret, hr, ok_bind, pure, Except.pure, beq_self_eq_true]

/-! ## a paragraph without nested paragraphs, seen on the tree -/

theorem setCaret_same (s s' : DC) (d : Nat) (n : Option Str) (hd : s.depth = d) (h1 : 1 ≤ d) (h4 : d ≤ 4)
    (h : s.setCaret (some d) n = .ok s') : s'.root = s.root ∧ s'.depth = d := by
  obtain ⟨s2, h2, hr, hdd, _⟩ := setCaret_up s d n h1 (by omega) (by omega)
  rw [h] at h2; cases h2; exact ⟨hr, hdd⟩

theorem commencePar_root4 (html : Bool) (s s' : DC) (e : Option Xml) (c : Bool) (hd : s.depth = 4)
    (h : s.commencePar html e c = .ok s') : s'.root = s.root ∧ s'.depth = 4 ∧ HasTop s' := by
  unfold DC.commencePar at h
  obtain ⟨s1, h1, h⟩ := bind_ok h
  obtain ⟨_, _, h⟩ := bind_ok h
  obtain ⟨_, _, h⟩ := bind_ok h
  have := pure_ok h; subst this
  obtain ⟨hr, hdd⟩ := setCaret_same s s1 4 _ hd (by omega) (by omega) h1
  exact ⟨hr, hdd, ⟨_, List.getLast?_concat⟩⟩

theorem openParagraph_root4 (cfg : PartCfg) (s s' : DC) (x : Xml) (c : Bool) (hd : s.depth = 4)
    (h : openParagraph cfg s x c = .ok s') : s'.root = s.root ∧ s'.depth = 4 ∧ HasTop s' := by
  unfold openParagraph at h
  obtain ⟨s1, h1, h⟩ := bind_ok h
  obtain ⟨hr1, hd1, ht1⟩ := commencePar_root4 cfg.html s s1 _ c hd h1
  obtain ⟨bb, _, h⟩ := bind_ok h
  obtain ⟨s2, h2, h⟩ := bind_ok h
  have := pure_ok h; subst this
  have g := insertNewRun_grow cfg.html ({ s1 with bullets := (listPosition bb.1 x (x.id?.getD 0)).1 } : DC) s2 bb.2 ht1 h2
  refine ⟨by rw [(modTop_same _ _).1, g.root]; exact hr1, by rw [(modTop_same _ _).2, g.depth]; exact hd1, ?_⟩
  obtain ⟨q, hq⟩ := g.hasTop
  unfold DC.modTop; simp only [hq]
  exact ⟨_, List.getLast?_concat⟩

theorem concludePar_root4 (s s' : DC) (q : Par) (hd : s.depth = 4) (hq : s.openPars.getLast? = some q)
    (h : s.concludePar = .ok s') :
    modAt 3 s.root (fun xs => pure (xs ++ [.par q])) = .ok s'.root ∧ s'.depth = 4 := by
  unfold DC.concludePar at h
  simp only [hq] at h
  obtain ⟨s1, h1, h⟩ := bind_ok h
  obtain ⟨hr, hdd⟩ := setCaret_same ({ s with openPars := s.openPars.dropLast } : DC) s1 4 none hd (by omega) (by omega) h1
  unfold DC.appendAtCaret at h
  obtain ⟨r, hm, h⟩ := bind_ok h
  have := pure_ok h; subst this
  rw [hdd] at hm
  simp only at hr
  rw [hr] at hm
  exact ⟨hm, hdd⟩

/-- the tree after a flat paragraph: one record appended to the cell at the caret -/
theorem walk_paragraph_at4 (cfg : PartCfg) (num : Dict Str (List NumAttr)) (c : Bool) (s s' : DC)
    (i : Nat) (p : Option Str) (t : QName) (m : NsMap) (a : List (QName × Str)) (tx tl : Option Str) (ks : List Xml)
    (hx : (Xml.elem i p t m a tx tl ks).ptag = paragraphTag) (hk : flatInlineL ks = true) (hd : s.depth = 4) (hni : NoImpl s)
    (h : walk cfg num c s (.elem i p t m a tx tl ks) = .ok s') :
    ∃ q, modAt 3 s.root (fun xs => pure (xs ++ [.par q])) = .ok s'.root ∧ s'.depth = 4 ∧ s'.openPars = s.openPars := by
  have hop0 : s'.openPars = s.openPars := by
    obtain ⟨_, _, _, _, e, _⟩ := walk_paragraph cfg num c s s' i p t m a tx tl ks hx hk hni h
    exact e
  have hdep := elemDepth_par _ hx rfl
  have hl : ((Xml.elem i p t m a tx tl ks).ptag == hyperlinkTag) = false := by rw [hx]; exact paragraphTag_ne.2.2
  simp only [walk, hdep, hl, Bool.false_eq_true, if_false, setCaretOpen_noImpl s _ _ hni] at h
  obtain ⟨s1, h1, h⟩ := bind_ok h
  obtain ⟨hr1, hd1⟩ := setCaret_same s s1 4 _ hd (by omega) (by omega) h1
  obtain ⟨roots, hr, h⟩ := bind_ok h
  have := pure_ok hr; subst this
  obtain ⟨⟨s2, rec⟩, h2, h⟩ := bind_ok h
  have hm : tagMember (Xml.elem i p t m a tx tl ks).ptag = some "PARAGRAPH" := by rw [hx]; exact tagMember_paragraph
  unfold openStep at h2
  simp only [hm] at h2
  have hrec : rec = true := (withTrue_ok h2).2
  have hop := (withTrue_ok h2).1
  subst hrec
  obtain ⟨hr2, hd2, ht2⟩ := openParagraph_root4 cfg s1 s2 _ c hd1 hop
  obtain ⟨s3, h3, h⟩ := bind_ok h
  simp only [if_true] at h3
  obtain ⟨body, _, g3⟩ := walkL_flat cfg num ks _ s2 s3 hk ht2 h3
  obtain ⟨q, hq⟩ := g3.hasTop
  obtain ⟨s4, h4, h⟩ := bind_ok h
  rw [closeStep_noImpl cfg s3 _ (grow_noImpl g3 (openParagraph_noImpl cfg s1 s2 c i p t m a tx tl ks hop))] at h4
  unfold closeStepCore at h4
  simp only [hm] at h4
  obtain ⟨hm4, hd4⟩ := concludePar_root4 s3 s4 q (by rw [g3.depth]; exact hd2) hq h4
  obtain ⟨hr5, hd5⟩ := setCaret_same s4 s' 4 none hd4 (by omega) (by omega) h
  refine ⟨q, ?_, hd5, hop0⟩
  rw [hr5, ← hr1, ← hr2, ← g3.root]; exact hm4

/-- … and when the caret is at row level, the paragraph first opens a new cell -/
theorem walk_paragraph_at3 (cfg : PartCfg) (num : Dict Str (List NumAttr)) (c : Bool) (s s' : DC)
    (i : Nat) (p : Option Str) (t : QName) (m : NsMap) (a : List (QName × Str)) (tx tl : Option Str) (ks : List Xml)
    (hx : (Xml.elem i p t m a tx tl ks).ptag = paragraphTag) (hk : flatInlineL ks = true) (hd : s.depth = 3) (r : List Nest)
    (hr0 : modAt 2 s.root (fun xs => pure (xs ++ [.list []])) = .ok r) (hni : NoImpl s)
    (h : walk cfg num c s (.elem i p t m a tx tl ks) = .ok s') :
    ∃ q, modAt 3 r (fun xs => pure (xs ++ [.par q])) = .ok s'.root ∧ s'.depth = 4 ∧ s'.openPars = s.openPars := by
  have hop0 : s'.openPars = s.openPars := by
    obtain ⟨_, _, _, _, e, _⟩ := walk_paragraph cfg num c s s' i p t m a tx tl ks hx hk hni h
    exact e
  have hdep := elemDepth_par _ hx rfl
  have hl : ((Xml.elem i p t m a tx tl ks).ptag == hyperlinkTag) = false := by rw [hx]; exact paragraphTag_ne.2.2
  simp only [walk, hdep, hl, Bool.false_eq_true, if_false, setCaretOpen_noImpl s _ _ hni] at h
  obtain ⟨s1, h1, h⟩ := bind_ok h
  have hr1 : s1.root = r ∧ s1.depth = 4 := by
    obtain ⟨s2, h2, hr2, hd2, _⟩ := setCaret_down1 s (some t.name) (by omega) r (by rw [hd]; exact hr0)
    rw [hd] at h2 hd2
    rw [h1] at h2; cases h2; exact ⟨hr2, hd2⟩
  obtain ⟨hr1, hd1⟩ := hr1
  obtain ⟨roots, hr, h⟩ := bind_ok h
  have := pure_ok hr; subst this
  obtain ⟨⟨s2, rec⟩, h2, h⟩ := bind_ok h
  have hm : tagMember (Xml.elem i p t m a tx tl ks).ptag = some "PARAGRAPH" := by rw [hx]; exact tagMember_paragraph
  unfold openStep at h2
  simp only [hm] at h2
  have hrec : rec = true := (withTrue_ok h2).2
  have hop := (withTrue_ok h2).1
  subst hrec
  obtain ⟨hr2, hd2, ht2⟩ := openParagraph_root4 cfg s1 s2 _ c hd1 hop
  obtain ⟨s3, h3, h⟩ := bind_ok h
  simp only [if_true] at h3
  obtain ⟨body, _, g3⟩ := walkL_flat cfg num ks _ s2 s3 hk ht2 h3
  obtain ⟨q, hq⟩ := g3.hasTop
  obtain ⟨s4, h4, h⟩ := bind_ok h
  rw [closeStep_noImpl cfg s3 _ (grow_noImpl g3 (openParagraph_noImpl cfg s1 s2 c i p t m a tx tl ks hop))] at h4
  unfold closeStepCore at h4
  simp only [hm] at h4
  obtain ⟨hm4, hd4⟩ := concludePar_root4 s3 s4 q (by rw [g3.depth]; exact hd2) hq h4
  obtain ⟨hr5, hd5⟩ := setCaret_same s4 s' 4 none hd4 (by omega) (by omega) h
  refine ⟨q, ?_, hd5, hop0⟩
  rw [hr5, ← hr1, ← hr2, ← g3.root]; exact hm4

/-! ## elements the walk passes through without any effect -/

mutual
/-- no element below is in the tag register (in particular: no paragraph) -/
def inert : Xml → Bool
  | .elem i p t m a tx tl ks => (tagMember (Xml.elem i p t m a tx tl ks).ptag).isNone && inertL ks
  | _ => true
def inertL : List Xml → Bool
  | [] => true
  | k :: ks => inert k && inertL ks
end

mutual
theorem nearestPar_inert : (x : Xml) → inert x = true → nearestPar x = none
  | .elem i p t m a tx tl ks, h => by
    simp only [inert, Bool.and_eq_true, Option.isNone_iff_eq_none] at h
    have hp : ((Xml.elem i p t m a tx tl ks).ptag == paragraphTag) = false := by
      cases hb : ((Xml.elem i p t m a tx tl ks).ptag == paragraphTag) with
      | false => rfl
      | true =>
        have e : (Xml.elem i p t m a tx tl ks).ptag = paragraphTag := by simpa using hb
        rw [e, tagMember_paragraph] at h; simp at h
    simp only [nearestPar, hp, Bool.false_eq_true, if_false, nearestParL_inert ks h.2, Option.map_none]
  | .comment _ _, _ => rfl
  | .pi _, _ => rfl
theorem nearestParL_inert : (ks : List Xml) → inertL ks = true → nearestParL ks = none
  | [], _ => rfl
  | k :: ks, h => by
    simp only [inertL, Bool.and_eq_true] at h
    simp only [nearestParL, nearestPar_inert k h.1, nearestParL_inert ks h.2]; rfl
end

theorem elemDepth_inert (x : Xml) (h : inert x = true) : elemDepth x = none := by
  unfold elemDepth; split
  · rfl
  · rw [nearestPar_inert x h]; rfl

theorem tagMember_hyperlinkTag_some : tagMember hyperlinkTag = some "HYPERLINK" := tagMember_hyperlink

mutual
theorem walk_inert (cfg : PartCfg) (num : Dict Str (List NumAttr)) :
    (x : Xml) → inert x = true → ∀ (c : Bool) (s : DC), walk cfg num c s x = .ok s
  | .elem i p t m a tx tl ks, h, c, s => by
    have hd := elemDepth_inert _ h
    simp only [inert, Bool.and_eq_true, Option.isNone_iff_eq_none] at h
    have hl : ((Xml.elem i p t m a tx tl ks).ptag == hyperlinkTag) = false := by
      cases hb : ((Xml.elem i p t m a tx tl ks).ptag == hyperlinkTag) with
      | false => rfl
      | true =>
        have e : (Xml.elem i p t m a tx tl ks).ptag = hyperlinkTag := by simpa using hb
        rw [e, tagMember_hyperlink] at h; simp at h
    have ho : ∀ s1, openStep cfg s1 (.elem i p t m a tx tl ks) c [] = .ok (s1, true) := by
      intro s1; unfold openStep; rw [h.1]; rfl
    have hc : ∀ s1, closeStep cfg s1 (.elem i p t m a tx tl ks) = .ok s1 := by
      intro s1; rw [closeStep_depth_none cfg s1 _ hd]; unfold closeStepCore; rw [h.1]; rfl
    simp only [walk, hd, hl, setCaretOpen_none, DC.setCaret, pure, Except.pure, ok_bind, Bool.false_eq_true, if_false, ho, if_true,
      walkL_inert cfg num ks h.2, hc]
  | .comment _ _, _, _, _ => rfl
  | .pi _, _, _, _ => rfl
theorem walkL_inert (cfg : PartCfg) (num : Dict Str (List NumAttr)) :
    (ks : List Xml) → inertL ks = true → ∀ (c : Bool) (s : DC), walkL cfg num c s ks = .ok s
  | [], _, _, _ => rfl
  | k :: ks, h, c, s => by
    simp only [inertL, Bool.and_eq_true] at h
    simp only [walkL, walk_inert cfg num k h.1, ok_bind, walkL_inert cfg num ks h.2]
end

/-! ## the children of a regular cell -/

def isFlatPar : Xml → Bool
  | .elem i p t m a tx tl ks => ((Xml.elem i p t m a tx tl ks).ptag == paragraphTag) && flatInlineL ks
  | _ => false

/-- flat paragraphs and elements without effect, in any order -/
def cellKids : List Xml → Bool
  | [] => true
  | k :: ks => (isFlatPar k || inert k) && cellKids ks

def countPars (ks : List Xml) : Nat := (ks.filter isFlatPar).length

def AllPar (P : List Nest) : Prop := ∀ n ∈ P, ∃ q, n = .par q

/-- the record `q` was made from the source paragraph `k`: it carries `k`'s identity and its text
ends with the text of `k`'s inline content (what precedes it is a list label or a queued note
label, see C02/C08) -/
def ParFrom (cfg : PartCfg) (k : Xml) (q : Par) : Prop :=
  q.elem = k.id? ∧ ∃ pre body, inlineTextL cfg k.kids = .ok body ∧ parText q = pre ++ body

/-- records and source paragraphs, pairwise and in order -/
inductive ParsFrom (cfg : PartCfg) : List Xml → List Nest → Prop
  | nil : ParsFrom cfg [] []
  | cons {k : Xml} {q : Par} {ks : List Xml} {Q : List Nest} :
      ParFrom cfg k q → ParsFrom cfg ks Q → ParsFrom cfg (k :: ks) (.par q :: Q)

theorem ParsFrom.append {cfg : PartCfg} {ks ks' : List Xml} {Q Q' : List Nest} (h : ParsFrom cfg ks Q) (h' : ParsFrom cfg ks' Q') :
    ParsFrom cfg (ks ++ ks') (Q ++ Q') := by
  induction h with
  | nil => simpa using h'
  | cons hk _ ih => exact ParsFrom.cons hk ih

theorem leafParsL_T3 (T R C : List Nest) : leafParsL (T3 T R C) = leafParsL T ++ (leafParsL R ++ leafParsL C) := by
  simp [T3, leafParsL_append, leafParsL, leafParsT]

theorem leafParsL_T4 (T R C P : List Nest) : leafParsL (T4 T R C P) = leafParsL T ++ (leafParsL R ++ (leafParsL C ++ leafParsL P)) := by
  simp [T4, leafParsL_append, leafParsL, leafParsT]

theorem parFrom_of_walk (cfg : PartCfg) (num : Dict Str (List NumAttr)) (c : Bool) (s s' : DC) (k : Xml)
    (hk : isFlatPar k = true) (hni : NoImpl s) (h : walk cfg num c s k = .ok s') (q : Par)
    (hl : leafParsL s'.root = leafParsL s.root ++ [q]) : ParFrom cfg k q := by
  cases k with
  | elem i p t m a tx tl ks =>
    simp only [isFlatPar, Bool.and_eq_true, beq_iff_eq] at hk
    obtain ⟨par, body, bb, h1, _, _, _, h5, h6, _, h8, _⟩ := walk_paragraph cfg num c s s' i p t m a tx tl ks hk.1 hk.2 hni h
    rw [h1] at hl
    have : par = q := by simpa using hl
    subst this
    exact ⟨by simpa [Xml.id?] using h5, _, body, by simpa [Xml.kids] using h6, h8⟩
  | comment _ _ => simp [isFlatPar] at hk
  | pi _ => simp [isFlatPar] at hk

theorem allPar_append {P Q : List Nest} (hp : AllPar P) (hq : AllPar Q) : AllPar (P ++ Q) := by
  intro n hn; rcases List.mem_append.1 hn with h | h
  · exact hp n h
  · exact hq n h

theorem flatPar_inert_excl (k : Xml) (h : isFlatPar k = true) : inert k = false := by
  cases k with
  | elem i p t m a tx tl ks =>
    simp only [isFlatPar, Bool.and_eq_true, beq_iff_eq] at h
    simp only [inert, h.1, tagMember_paragraph]; rfl
  | comment _ _ => simp [isFlatPar] at h
  | pi _ => simp [isFlatPar] at h

theorem walk_flatPar4 (cfg : PartCfg) (num : Dict Str (List NumAttr)) (c : Bool) (s s' : DC) (k : Xml)
    (hk : isFlatPar k = true) (T R C P : List Nest) (hd : s.depth = 4) (hr : s.root = T4 T R C P) (hni : NoImpl s)
    (h : walk cfg num c s k = .ok s') : ∃ q, s'.root = T4 T R C (P ++ [.par q]) ∧ s'.depth = 4 ∧ ParFrom cfg k q ∧ s'.openPars = s.openPars := by
  have hk0 := hk
  cases k with
  | elem i p t m a tx tl ks =>
    simp only [isFlatPar, Bool.and_eq_true, beq_iff_eq] at hk
    obtain ⟨q, hm, hd', hop⟩ := walk_paragraph_at4 cfg num c s s' i p t m a tx tl ks hk.1 hk.2 hd hni h
    rw [hr, modAt3_T4] at hm
    simp only [pure, Except.pure, ok_bind] at hm
    have hr' := (Except.ok.inj hm).symm
    refine ⟨q, hr', hd', parFrom_of_walk cfg num c s s' _ hk0 hni h q ?_, hop⟩
    rw [hr', hr, leafParsL_T4, leafParsL_T4, leafParsL_append]
    simp [leafParsL, leafParsT]
  | comment _ _ => simp [isFlatPar] at hk
  | pi _ => simp [isFlatPar] at hk

theorem walk_flatPar3 (cfg : PartCfg) (num : Dict Str (List NumAttr)) (c : Bool) (s s' : DC) (k : Xml)
    (hk : isFlatPar k = true) (T R C : List Nest) (hd : s.depth = 3) (hr : s.root = T3 T R C) (hni : NoImpl s)
    (h : walk cfg num c s k = .ok s') : ∃ q, s'.root = T4 T R C [.par q] ∧ s'.depth = 4 ∧ ParFrom cfg k q ∧ s'.openPars = s.openPars := by
  have hk0 := hk
  cases k with
  | elem i p t m a tx tl ks =>
    simp only [isFlatPar, Bool.and_eq_true, beq_iff_eq] at hk
    have hr0 : modAt 2 s.root (fun xs => pure (xs ++ [Nest.list []])) = .ok (T4 T R C []) := by
      rw [hr, modAt2_T3]; rfl
    obtain ⟨q, hm, hd', hop⟩ := walk_paragraph_at3 cfg num c s s' i p t m a tx tl ks hk.1 hk.2 hd _ hr0 hni h
    rw [modAt3_T4] at hm
    simp only [pure, Except.pure, ok_bind] at hm
    have hr' : s'.root = T4 T R C [.par q] := by simpa using (Except.ok.inj hm).symm
    refine ⟨q, hr', hd', parFrom_of_walk cfg num c s s' _ hk0 hni h q ?_, hop⟩
    rw [hr', hr, leafParsL_T4, leafParsL_T3]
    simp [leafParsL, leafParsT]
  | comment _ _ => simp [isFlatPar] at hk
  | pi _ => simp [isFlatPar] at hk

theorem walkL_cell4 (cfg : PartCfg) (num : Dict Str (List NumAttr)) (c : Bool) (T R C : List Nest) :
    ∀ (ks : List Xml), cellKids ks = true → ∀ (P : List Nest) (s s' : DC), s.depth = 4 → s.root = T4 T R C P → NoImpl s →
      walkL cfg num c s ks = .ok s' →
      ∃ Q, s'.root = T4 T R C (P ++ Q) ∧ s'.depth = 4 ∧ Q.length = countPars ks ∧ AllPar Q ∧
        ParsFrom cfg (ks.filter isFlatPar) Q ∧ s'.openPars = s.openPars
  | [], _, P, s, s', hd, hr, hni, h => by
    simp only [walkL] at h; have := pure_ok h; subst this
    exact ⟨[], by simpa using hr, hd, rfl, by intro n hn; simp at hn, ParsFrom.nil, rfl⟩
  | k :: ks, hk, P, s, s', hd, hr, hni, h => by
    simp only [cellKids, Bool.and_eq_true, Bool.or_eq_true] at hk
    simp only [walkL] at h
    obtain ⟨s1, h1, h⟩ := bind_ok h
    rcases hk.1 with hp | hi
    · obtain ⟨q, hr1, hd1, hpf, hop1⟩ := walk_flatPar4 cfg num c s s1 k hp T R C P hd hr hni h1
      obtain ⟨Q, hrq, hdq, hlen, hall, hfrom, hopq⟩ := walkL_cell4 cfg num c T R C ks hk.2 _ s1 s' hd1 hr1 (NoImpl_of_openPars hop1 hni) h
      refine ⟨.par q :: Q, by rw [hrq]; simp, hdq, ?_, ?_, ?_, hopq.trans hop1⟩
      · simp [countPars, List.filter_cons, hp, hlen]
      · intro n hn; rcases List.mem_cons.1 hn with rfl | hn
        · exact ⟨q, rfl⟩
        · exact hall n hn
      · rw [List.filter_cons]; simp only [hp, if_true]; exact ParsFrom.cons hpf hfrom
    · rw [walk_inert cfg num k hi c s] at h1
      cases h1
      obtain ⟨Q, hrq, hdq, hlen, hall, hfrom, hopq⟩ := walkL_cell4 cfg num c T R C ks hk.2 P s s' hd hr hni h
      have : isFlatPar k = false := by
        cases hf : isFlatPar k with
        | false => rfl
        | true => rw [flatPar_inert_excl k hf] at hi; simp at hi
      refine ⟨Q, hrq, hdq, ?_, hall, ?_, hopq⟩
      · simp [countPars, List.filter_cons, this, hlen]
      · rw [List.filter_cons]; simp only [this, Bool.false_eq_true, if_false]; exact hfrom

/-- from row level: the first paragraph opens the cell -/
theorem walkL_cell3 (cfg : PartCfg) (num : Dict Str (List NumAttr)) (c : Bool) (T R C : List Nest) :
    ∀ (ks : List Xml), cellKids ks = true → ∀ (s s' : DC), s.depth = 3 → s.root = T3 T R C → NoImpl s →
      walkL cfg num c s ks = .ok s' →
      s'.openPars = s.openPars ∧
      ((countPars ks = 0 ∧ s'.root = T3 T R C ∧ s'.depth = 3) ∨
      (∃ Q, s'.root = T4 T R C Q ∧ s'.depth = 4 ∧ Q.length = countPars ks ∧ Q ≠ [] ∧ AllPar Q ∧
        ParsFrom cfg (ks.filter isFlatPar) Q))
  | [], _, s, s', hd, hr, hni, h => by
    simp only [walkL] at h; have := pure_ok h; subst this
    exact ⟨rfl, Or.inl ⟨rfl, hr, hd⟩⟩
  | k :: ks, hk, s, s', hd, hr, hni, h => by
    simp only [cellKids, Bool.and_eq_true, Bool.or_eq_true] at hk
    simp only [walkL] at h
    obtain ⟨s1, h1, h⟩ := bind_ok h
    rcases hk.1 with hp | hi
    · obtain ⟨q, hr1, hd1, hpf, hop1⟩ := walk_flatPar3 cfg num c s s1 k hp T R C hd hr hni h1
      obtain ⟨Q, hrq, hdq, hlen, hall, hfrom, hopq⟩ := walkL_cell4 cfg num c T R C ks hk.2 _ s1 s' hd1 hr1 (NoImpl_of_openPars hop1 hni) h
      refine ⟨hopq.trans hop1, ?_⟩
      right
      refine ⟨.par q :: Q, by rw [hrq]; simp, hdq, ?_, by simp, ?_, ?_⟩
      · simp [countPars, List.filter_cons, hp, hlen]
      · intro n hn; rcases List.mem_cons.1 hn with rfl | hn
        · exact ⟨q, rfl⟩
        · exact hall n hn
      · rw [List.filter_cons]; simp only [hp, if_true]; exact ParsFrom.cons hpf hfrom
    · rw [walk_inert cfg num k hi c s] at h1
      cases h1
      have : isFlatPar k = false := by
        cases hf : isFlatPar k with
        | false => rfl
        | true => rw [flatPar_inert_excl k hf] at hi; simp at hi
      obtain ⟨hop, hrest⟩ := walkL_cell3 cfg num c T R C ks hk.2 s s' hd hr hni h
      refine ⟨hop, ?_⟩
      rcases hrest with ⟨h0, hr', hd'⟩ | ⟨Q, hrq, hdq, hlen, hne, hall, hfrom⟩
      · left
        have e : countPars (k :: ks) = countPars ks := by unfold countPars; rw [List.filter_cons]; simp [this]
        exact ⟨by rw [e]; exact h0, hr', hd'⟩
      · right
        refine ⟨Q, hrq, hdq, by simp [countPars, List.filter_cons, this, hlen], hne, hall, ?_⟩
        rw [List.filter_cons]; simp only [this, Bool.false_eq_true, if_false]; exact hfrom

/-! ## rows and cells addressed on the spine form -/

theorem captureRow_T3 (T R C : List Nest) : captureRow (T3 T R C) = .ok (some (T.length, R.length, R.length + 1)) := by
  unfold captureRow T3
  simp; rfl

theorem getElem_T3 (T R C : List Nest) : (T3 T R C)[T.length]? = some (.list (R ++ [.list C])) := by
  unfold T3; simp

theorem getRow_T3 (T R C : List Nest) : getRow (T3 T R C) T.length R.length = .ok C := by
  unfold getRow; rw [getElem_T3]; simp; rfl

theorem rowCount_T3 (T R C : List Nest) : rowCount (T3 T R C) T.length = R.length + 1 := by
  unfold rowCount; rw [getElem_T3]; simp

theorem setRow_T3 (T R C C' : List Nest) : setRow (T3 T R C) T.length R.length C' = T3 T R C' := by
  unfold setRow T3
  apply List.ext_getElem?
  intro j
  rw [List.getElem?_modify]
  by_cases hj : T.length = j
  · subst hj; simp
  · simp only [hj, if_false]
    rcases Nat.lt_or_ge j T.length with hlt | hge
    · simp [List.getElem?_append_left hlt]
    · have : j ≥ T.length + 1 := by omega
      simp [List.getElem?_append_right hge]
      have : j - T.length ≠ 0 := by omega
      cases hx : j - T.length with
      | zero => omega
      | succ k => simp

theorem getRow_prev_T3 (T R0 prev C : List Nest) :
    getRow (T3 T (R0 ++ [.list prev]) C) T.length ((R0 ++ [Nest.list prev]).length - 1) = .ok prev := by
  unfold getRow; rw [getElem_T3]; simp; rfl

/-! ## closing a cell, on the spine form -/

/-- what ends up at the cell's own grid position: the copy of the cell above for a vertically
continued cell (duplication on, a row above, a cell above at this grid column), otherwise the cell's
own paragraphs -/
def cellBase (dup cont : Bool) (R C Q : List Nest) : Nest :=
  if dup && cont then
    match R.getLast? with
    | some (.list prev) => (match prev[C.length]? with | some above => markCopyT above | none => .list Q)
    | _ => .list Q
  else .list Q

theorem iterate_span_depth (dup : Bool) (ti ri : Nat) : ∀ (n : Nat) (s s' : DC), 3 ≤ s.depth → s.depth ≤ 4 →
    iterateM (spanStep dup ti ri) n s = .ok s' → 3 ≤ s'.depth ∧ s'.depth ≤ 4
  | 0, s, s', h3, h4, h => by simp only [iterateM] at h; have := pure_ok h; subst this; exact ⟨h3, h4⟩
  | n+1, s, s', h3, h4, h => by
    simp only [iterateM] at h
    obtain ⟨s1, h1, h⟩ := bind_ok h
    unfold spanStep at h1
    obtain ⟨s0, h0, h1⟩ := bind_ok h1
    obtain ⟨_, hd0⟩ := setCaret3_root s s0 h3 h4 h0
    obtain ⟨_, _, h1⟩ := bind_ok h1
    have := pure_ok h1; subst this
    exact iterate_span_depth dup ti ri n _ s' (by simp [hd0]) (by simp [hd0]) h

theorem span_on_T3 (dup : Bool) (T R C : List Nest) (base : Nest) (n : Nat) (s s' : DC) (h3 : 3 ≤ s.depth) (h4 : s.depth ≤ 4)
    (hr : s.root = T3 T R (C ++ [base])) (h : iterateM (spanStep dup T.length R.length) n s = .ok s') :
    s'.root = T3 T R (C ++ [base] ++ List.replicate n (spanCell dup base)) ∧ 3 ≤ s'.depth ∧ s'.depth ≤ 4 := by
  have hg : getRow s.root T.length R.length = .ok ((C ++ [base]) ++ List.replicate 0 (spanCell dup base)) := by
    rw [hr, getRow_T3]; simp
  have := C04_span_cells dup T.length R.length (C ++ [base]) base (by simp) n 0 s s' h3 h4 hg h
  rw [this, hr, setRow_T3]
  simp only [Nat.zero_add, true_and]
  exact iterate_span_depth dup _ _ n s s' h3 h4 h

theorem closeTableCell_T4 (dup : Bool) (tc : Xml) (pr : Dict Str (Option Str)) (n : Nat)
    (hd0 : (elemDepth tc).isNone = false) (hpr : gatherPr tc = .ok pr) (hn : spanExtra pr = .ok n)
    (T R C Q : List Nest) (s s' : DC) (hd : s.depth = 4) (hr : s.root = T4 T R C Q)
    (h : closeTableCell dup s tc = .ok s') :
    s'.root = T3 T R (C ++ [cellBase dup (isContinuation pr) R C Q] ++
        List.replicate n (spanCell dup (cellBase dup (isContinuation pr) R C Q))) ∧ 3 ≤ s'.depth ∧ s'.depth ≤ 4 := by
  unfold closeTableCell at h
  have hr3 : s.root = T3 T R (C ++ [.list Q]) := by rw [hr]; rfl
  simp only [hd0, Bool.false_eq_true, if_false, hpr, ok_bind, hr3, captureRow_T3, hn] at h
  by_cases hc : (dup && isContinuation pr && decide (R.length + 1 > 1)) = true
  · -- the cell above is copied
    simp only [vmergeStep, hc, if_true] at h
    obtain ⟨s1, h1, h⟩ := bind_ok h
    simp only [Bool.and_eq_true, decide_eq_true_eq] at hc
    obtain ⟨⟨hdup, hcont⟩, hR⟩ := hc
    have hRne : R ≠ [] := by intro e; subst e; simp at hR
    unfold vmergeDo at h1
    obtain ⟨s0, h0, h1⟩ := bind_ok h1
    obtain ⟨hr0, hd0'⟩ := setCaret3_root s s0 (by omega) (by omega) h0
    rw [hr0, hr3, getRow_T3, rowCount_T3] at h1
    simp only [ok_bind] at h1
    -- the previous row
    obtain ⟨R0, x, hRx⟩ : ∃ R0 x, R = R0 ++ [x] := ⟨R.dropLast, R.getLast hRne, (List.dropLast_concat_getLast hRne).symm⟩
    cases x with
    | par q =>
      exfalso
      subst hRx
      have : getRow (T3 T (R0 ++ [Nest.par q]) (C ++ [Nest.list Q])) T.length ((R0 ++ [Nest.par q]).length + 1 - 2) = .error .modelLimit := by
        unfold getRow; rw [getElem_T3]; simp
      rw [this] at h1; simp [bind, Except.bind] at h1
    | list prev =>
      subst hRx
      have e2 : (R0 ++ [Nest.list prev]).length + 1 - 2 = (R0 ++ [Nest.list prev]).length - 1 := by simp
      rw [e2, getRow_prev_T3] at h1
      simp only [ok_bind] at h1
      have hne : (C ++ [Nest.list Q]).isEmpty = false := by simp
      simp only [hne, Bool.false_eq_true, if_false] at h1
      have hlen : (C ++ [Nest.list Q]).length - 1 = C.length := by simp
      rw [hlen] at h1
      have hbase : cellBase dup (isContinuation pr) (R0 ++ [Nest.list prev]) C Q =
          (match prev[C.length]? with | some above => markCopyT above | none => .list Q) := by
        unfold cellBase; simp [hdup, hcont]
      rw [hbase]
      cases ha : prev[C.length]? with
      | none =>
        simp only [ha] at h1
        have := pure_ok h1; subst this
        exact span_on_T3 dup T _ C (.list Q) n s0 s' (by omega) (by omega) (by rw [hr0, hr3]) h
      | some above =>
        simp only [ha] at h1
        have := pure_ok h1; subst this
        refine span_on_T3 dup T _ C (markCopyT above) n _ s' (by simp [hd0']) (by simp [hd0']) ?_ h
        show setRow (T3 T (R0 ++ [Nest.list prev]) (C ++ [Nest.list Q])) T.length (R0 ++ [Nest.list prev]).length
            ((C ++ [Nest.list Q]).dropLast ++ [markCopyT above]) = _
        rw [setRow_T3]
        simp
  · -- no vertical copy
    have hv : vmergeStep dup (isContinuation pr) (R.length + 1) T.length R.length s = .ok s := by
      unfold vmergeStep; simp only [hc, Bool.false_eq_true, if_false]; rfl
    rw [hv] at h
    simp only [ok_bind] at h
    have hbase : cellBase dup (isContinuation pr) R C Q = .list Q := by
      unfold cellBase
      by_cases hdc : (dup && isContinuation pr) = true
      · simp only [hdc, if_true]
        have hR : R = [] := by
          simp only [Bool.and_eq_true, decide_eq_true_eq, not_and] at hc
          simp only [Bool.and_eq_true] at hdc
          have := hc hdc
          cases R with
          | nil => rfl
          | cons _ _ => simp at this
        subst hR; rfl
      · simp [hdc]
    rw [hbase]
    exact span_on_T3 dup T R C (.list Q) n s s' (by omega) (by omega) hr3 h

/-! ## a regular cell -/

/-- the collector while a row is being filled: at row level with cells `C`, or still at table
level before the row's first cell -/
def RowState (T R C : List Nest) (s : DC) : Prop :=
  (s.depth = 3 ∧ s.root = T3 T R C) ∨ (s.depth = 2 ∧ s.root = T2 T R ∧ C = [])

def cellTag : Str := lit "w:tc"

def regCell : Xml → Bool
  | .elem i p t m a tx tl ks => ((Xml.elem i p t m a tx tl ks).ptag == cellTag) && cellKids ks && decide (1 ≤ countPars ks)
  | _ => false

theorem cellTag_facts : (cellTag == paragraphTag) = false ∧ (cellTag == documentTag) = false ∧ (cellTag == bodyTag) = false ∧
    (cellTag == hyperlinkTag) = false ∧ tagMember cellTag = some "TABLE_CELL" := by decide

theorem nearestPar_flatPar (k : Xml) (h : isFlatPar k = true) : nearestPar k = some 0 := by
  cases k with
  | elem i p t m a tx tl ks =>
    simp only [isFlatPar, Bool.and_eq_true] at h
    simp [nearestPar, h.1]
  | comment _ _ => simp [isFlatPar] at h
  | pi _ => simp [isFlatPar] at h

theorem nearestParL_cellKids : ∀ (ks : List Xml), cellKids ks = true →
    nearestParL ks = if countPars ks = 0 then none else some 0
  | [], _ => rfl
  | k :: ks, h => by
    simp only [cellKids, Bool.and_eq_true, Bool.or_eq_true] at h
    have ih := nearestParL_cellKids ks h.2
    rcases h.1 with hp | hi
    · have : countPars (k :: ks) ≠ 0 := by unfold countPars; rw [List.filter_cons]; simp [hp]
      simp only [nearestParL, nearestPar_flatPar k hp, ih, this, if_false]
      split <;> simp [optMin]
    · have hf : isFlatPar k = false := by
        cases hf : isFlatPar k with
        | false => rfl
        | true => rw [flatPar_inert_excl k hf] at hi; simp at hi
      have e : countPars (k :: ks) = countPars ks := by unfold countPars; rw [List.filter_cons]; simp [hf]
      simp only [nearestParL, nearestPar_inert k hi, ih, e]
      split <;> simp [optMin]

theorem elemDepth_regCell (x : Xml) (h : regCell x = true) : elemDepth x = some 3 := by
  cases x with
  | elem i p t m a tx tl ks =>
    simp only [regCell, Bool.and_eq_true, decide_eq_true_eq, beq_iff_eq] at h
    obtain ⟨⟨hp, hk⟩, hc⟩ := h
    unfold elemDepth
    rw [hp]
    simp only [cellTag_facts.2.1, cellTag_facts.2.2.1, Bool.or_self, Bool.false_eq_true, if_false]
    have hnp : ((Xml.elem i p t m a tx tl ks).ptag == paragraphTag) = false := by rw [hp]; exact cellTag_facts.1
    have : countPars ks ≠ 0 := by omega
    simp [nearestPar, hnp, nearestParL_cellKids ks hk, this]
  | comment _ _ => simp [regCell] at h
  | pi _ => simp [regCell] at h

/-- **a regular cell** walked at row level: its paragraphs form one cell at the next grid column —
replaced by the copy of the cell above when it continues a vertical merge and duplication is on —
followed by `gridSpan − 1` further cells (copies, or single empty paragraphs). -/
theorem walk_regCell (cfg : PartCfg) (num : Dict Str (List NumAttr)) (c : Bool) (x : Xml) (hx : regCell x = true)
    (pr : Dict Str (Option Str)) (n : Nat) (hpr : gatherPr x = .ok pr) (hn : spanExtra pr = .ok n)
    (T R C : List Nest) (s s' : DC) (hst : RowState T R C s) (hni : NoImpl s)
    (h : walk cfg num c s x = .ok s') :
    ∃ Q, Q.length = countPars x.kids ∧ Q ≠ [] ∧ AllPar Q ∧ ParsFrom cfg (x.kids.filter isFlatPar) Q ∧ s'.depth = 3 ∧
      s'.root = T3 T R (C ++ [cellBase cfg.dup (isContinuation pr) R C Q] ++
        List.replicate n (spanCell cfg.dup (cellBase cfg.dup (isContinuation pr) R C Q))) ∧ s'.openPars = s.openPars := by
  have hdep := elemDepth_regCell x hx
  cases x with
  | comment _ _ => simp [regCell] at hx
  | pi _ => simp [regCell] at hx
  | elem i p t m a tx tl ks =>
    simp only [regCell, Bool.and_eq_true, decide_eq_true_eq, beq_iff_eq] at hx
    obtain ⟨⟨hp, hk⟩, hc⟩ := hx
    have hl : ((Xml.elem i p t m a tx tl ks).ptag == hyperlinkTag) = false := by rw [hp]; exact cellTag_facts.2.2.2.1
    have hm : tagMember (Xml.elem i p t m a tx tl ks).ptag = some "TABLE_CELL" := by rw [hp]; exact cellTag_facts.2.2.2.2
    simp only [walk, hdep, hl, Bool.false_eq_true, if_false, setCaretOpen_noImpl s _ _ hni] at h
    obtain ⟨s1, h1, h⟩ := bind_ok h
    have hop1 := (setCaret_frame s s1 _ _ h1).openPars
    have hs1 : s1.root = T3 T R C ∧ s1.depth = 3 := by
      rcases hst with ⟨hd, hr⟩ | ⟨hd, hr, hC⟩
      · obtain ⟨hr1, hd1⟩ := setCaret_same s s1 3 _ hd (by omega) (by omega) h1
        exact ⟨by rw [hr1]; exact hr, hd1⟩
      · subst hC
        have hm0 : modAt (s.depth - 1) s.root (fun xs => pure (xs ++ [Nest.list []])) = .ok (T3 T R []) := by
          rw [hd, hr, modAt1_T2]; rfl
        obtain ⟨s2, h2, hr2, hd2, _⟩ := setCaret_down1 s (some t.name) (by omega) _ hm0
        rw [hd] at h2 hd2
        rw [h1] at h2; cases h2; exact ⟨hr2, hd2⟩
    obtain ⟨hr1, hd1⟩ := hs1
    obtain ⟨roots, hro, h⟩ := bind_ok h
    have := pure_ok hro; subst this
    obtain ⟨⟨s2, rec⟩, h2, h⟩ := bind_ok h
    have ho : openStep cfg s1 (.elem i p t m a tx tl ks) c [] = .ok (s1, true) := by unfold openStep; rw [hm]; rfl
    rw [ho] at h2; cases h2
    obtain ⟨s3, h3, h⟩ := bind_ok h
    simp only [if_true] at h3
    obtain ⟨hop3, hrest⟩ := walkL_cell3 cfg num _ T R C ks hk s1 s3 hd1 hr1 (NoImpl_of_openPars hop1 hni) h3
    rcases hrest with ⟨h0, _, _⟩ | ⟨Q, hrq, hdq, hlen, hne, hall, hfrom⟩
    · omega
    · obtain ⟨s4, h4, h⟩ := bind_ok h
      have hcl : closeStep cfg s3 (.elem i p t m a tx tl ks) = closeTableCell cfg.dup s3 (.elem i p t m a tx tl ks) := by
        rw [closeStep_noImpl cfg s3 _ (NoImpl_of_openPars (hop3.trans hop1) hni)]
        unfold closeStepCore; rw [hm]; rfl
      rw [hcl] at h4
      have hop4 := closeTableCell_openPars cfg.dup s3 s4 _ h4
      obtain ⟨hr4, h43, h44⟩ := closeTableCell_T4 cfg.dup _ pr n (by rw [hdep]; rfl) hpr hn T R C Q s3 s4 hdq hrq h4
      obtain ⟨s5, h5, hr5, hd5, hf5⟩ := setCaret_up s4 3 none (by omega) h43 h44
      rw [h] at h5; cases h5
      exact ⟨Q, by simpa [Xml.kids] using hlen, hne, hall, by simpa [Xml.kids] using hfrom, hd5, by rw [hr5]; exact hr4,
        hf5.openPars.trans (hop4.trans (hop3.trans hop1))⟩

/-! ## a regular row -/

/-- one source cell as the walk sees it -/
structure CellOut where
  n : Nat           -- gridSpan − 1
  cont : Bool       -- continues a vertical merge
  Q : List Nest     -- the records of its paragraphs

/-- the cells of a row, laid out left to right from the cells already there -/
def rowCells (dup : Bool) (R : List Nest) : List Nest → List CellOut → List Nest
  | C, [] => C
  | C, c :: cs =>
    rowCells dup R (C ++ [cellBase dup c.cont R C c.Q] ++ List.replicate c.n (spanCell dup (cellBase dup c.cont R C c.Q))) cs

/-- `out` describes what the walk makes of the source cell `x` -/
def CellMatches (cfg : PartCfg) (x : Xml) (out : CellOut) : Prop :=
  ∃ pr, gatherPr x = .ok pr ∧ spanExtra pr = .ok out.n ∧ out.cont = isContinuation pr ∧
    out.Q.length = countPars x.kids ∧ out.Q ≠ [] ∧ AllPar out.Q ∧ ParsFrom cfg (x.kids.filter isFlatPar) out.Q

/-- source cells and their outputs, pairwise -/
inductive CellsMatch (cfg : PartCfg) : List Xml → List CellOut → Prop
  | nil : CellsMatch cfg [] []
  | cons {x : Xml} {o : CellOut} {xs : List Xml} {os : List CellOut} : CellMatches cfg x o → CellsMatch cfg xs os → CellsMatch cfg (x :: xs) (o :: os)

theorem CellsMatch.length_eq {cfg : PartCfg} {xs : List Xml} {os : List CellOut} (h : CellsMatch cfg xs os) : xs.length = os.length := by
  induction h with
  | nil => rfl
  | cons _ _ ih => simp [ih]

/-- a regular cell whose properties can be read -/
def goodCell (x : Xml) : Bool :=
  regCell x && (match gatherPr x with | .ok pr => (match spanExtra pr with | .ok _ => true | .error _ => false) | .error _ => false)

def rowKids : List Xml → Bool
  | [] => true
  | k :: ks => (goodCell k || inert k) && rowKids ks

theorem goodCell_not_inert (k : Xml) (h : goodCell k = true) : inert k = false := by
  cases k with
  | elem i p t m a tx tl ks =>
    simp only [goodCell, regCell, Bool.and_eq_true, beq_iff_eq] at h
    simp only [inert, h.1.1.1, cellTag_facts.2.2.2.2]; rfl
  | comment _ _ => simp [goodCell, regCell] at h
  | pi _ => simp [goodCell, regCell] at h

theorem walkL_rowKids (cfg : PartCfg) (num : Dict Str (List NumAttr)) (c : Bool) (T R : List Nest) :
    ∀ (ks : List Xml), rowKids ks = true → ∀ (C : List Nest) (s s' : DC), RowState T R C s → NoImpl s →
      walkL cfg num c s ks = .ok s' →
      ∃ outs, CellsMatch cfg (ks.filter goodCell) outs ∧ RowState T R (rowCells cfg.dup R C outs) s' ∧ s'.openPars = s.openPars
  | [], _, C, s, s', hst, hni, h => by
    simp only [walkL] at h; have := pure_ok h; subst this
    exact ⟨[], CellsMatch.nil, hst, rfl⟩
  | k :: ks, hk, C, s, s', hst, hni, h => by
    simp only [rowKids, Bool.and_eq_true, Bool.or_eq_true] at hk
    simp only [walkL] at h
    obtain ⟨s1, h1, h⟩ := bind_ok h
    rcases hk.1 with hg | hi
    · have hg' := hg
      simp only [goodCell, Bool.and_eq_true] at hg'
      obtain ⟨hreg, hprs⟩ := hg'
      cases hpr : gatherPr k with
      | error e => simp [hpr] at hprs
      | ok pr =>
        simp only [hpr] at hprs
        cases hn : spanExtra pr with
        | error e => simp [hn] at hprs
        | ok n =>
          obtain ⟨Q, hlen, hne, hall, hfrom, hd1, hr1, hop1⟩ := walk_regCell cfg num c k hreg pr n hpr hn T R C s s1 hst hni h1
          obtain ⟨outs, hf, hst', hopq⟩ := walkL_rowKids cfg num c T R ks hk.2 _ s1 s' (Or.inl ⟨hd1, hr1⟩) (NoImpl_of_openPars hop1 hni) h
          refine ⟨⟨n, isContinuation pr, Q⟩ :: outs, ?_, ?_, hopq.trans hop1⟩
          · rw [List.filter_cons]; simp only [hg, if_true]
            exact CellsMatch.cons ⟨pr, hpr, hn, rfl, hlen, hne, hall, hfrom⟩ hf
          · simpa [rowCells] using hst'
    · rw [walk_inert cfg num k hi c s] at h1
      cases h1
      obtain ⟨outs, hf, hst', hopq⟩ := walkL_rowKids cfg num c T R ks hk.2 C s s' hst hni h
      refine ⟨outs, ?_, hst', hopq⟩
      have : goodCell k = false := by
        cases hgk : goodCell k with
        | false => rfl
        | true => rw [goodCell_not_inert k hgk] at hi; simp at hi
      rw [List.filter_cons]; simp only [this, Bool.false_eq_true, if_false]; exact hf

theorem rowCells_length (dup : Bool) (R : List Nest) : ∀ (outs : List CellOut) (C : List Nest),
    (rowCells dup R C outs).length = C.length + (outs.map (fun o => o.n + 1)).sum
  | [], C => by simp [rowCells]
  | o :: os, C => by
    simp only [rowCells, rowCells_length dup R os, List.length_append, List.length_cons, List.length_nil,
      List.length_replicate, List.map_cons, List.sum_cons]
    omega

def rowTag : Str := lit "w:tr"
def tblTag : Str := lit "w:tbl"

theorem rowTag_facts : (rowTag == paragraphTag) = false ∧ (rowTag == documentTag) = false ∧ (rowTag == bodyTag) = false ∧
    (rowTag == hyperlinkTag) = false ∧ tagMember rowTag = some "TABLE_ROW" := by decide
theorem tblTag_facts : (tblTag == paragraphTag) = false ∧ (tblTag == documentTag) = false ∧ (tblTag == bodyTag) = false ∧
    (tblTag == hyperlinkTag) = false ∧ tagMember tblTag = some "TABLE" := by decide

def countCells (ks : List Xml) : Nat := (ks.filter goodCell).length

def regRow : Xml → Bool
  | .elem i p t m a tx tl ks => ((Xml.elem i p t m a tx tl ks).ptag == rowTag) && rowKids ks && decide (1 ≤ countCells ks)
  | _ => false

theorem nearestPar_regCell (x : Xml) (h : regCell x = true) : nearestPar x = some 1 := by
  cases x with
  | elem i p t m a tx tl ks =>
    simp only [regCell, Bool.and_eq_true, decide_eq_true_eq, beq_iff_eq] at h
    obtain ⟨⟨hp, hk⟩, hc⟩ := h
    have hnp : ((Xml.elem i p t m a tx tl ks).ptag == paragraphTag) = false := by rw [hp]; exact cellTag_facts.1
    have : countPars ks ≠ 0 := by omega
    simp [nearestPar, hnp, nearestParL_cellKids ks hk, this]
  | comment _ _ => simp [regCell] at h
  | pi _ => simp [regCell] at h

theorem nearestParL_rowKids : ∀ (ks : List Xml), rowKids ks = true →
    nearestParL ks = if countCells ks = 0 then none else some 1
  | [], _ => rfl
  | k :: ks, h => by
    simp only [rowKids, Bool.and_eq_true, Bool.or_eq_true] at h
    have ih := nearestParL_rowKids ks h.2
    rcases h.1 with hg | hi
    · have hreg : regCell k = true := by simp only [goodCell, Bool.and_eq_true] at hg; exact hg.1
      have : countCells (k :: ks) ≠ 0 := by unfold countCells; rw [List.filter_cons]; simp [hg]
      simp only [nearestParL, nearestPar_regCell k hreg, ih, this, if_false]
      split <;> simp [optMin]
    · have hf : goodCell k = false := by
        cases hf : goodCell k with
        | false => rfl
        | true => rw [goodCell_not_inert k hf] at hi; simp at hi
      have e : countCells (k :: ks) = countCells ks := by unfold countCells; rw [List.filter_cons]; simp [hf]
      simp only [nearestParL, nearestPar_inert k hi, ih, e]
      split <;> simp [optMin]

/-- the collector while a table is being filled: at table level with rows `R`, or still at the top
level before the table's first row -/
def TblState (T R : List Nest) (s : DC) : Prop :=
  (s.depth = 2 ∧ s.root = T2 T R) ∨ (s.depth = 1 ∧ s.root = T ∧ R = [])

/-- **a regular row**: one new row whose cells are the row's cells laid out left to right -/
theorem walk_regRow (cfg : PartCfg) (num : Dict Str (List NumAttr)) (c : Bool) (x : Xml) (hx : regRow x = true)
    (T R : List Nest) (s s' : DC) (hst : TblState T R s) (hni : NoImpl s) (h : walk cfg num c s x = .ok s') :
    ∃ outs, CellsMatch cfg (x.kids.filter goodCell) outs ∧ s'.depth = 2 ∧
      s'.root = T2 T (R ++ [.list (rowCells cfg.dup R [] outs)]) ∧ s'.openPars = s.openPars := by
  cases x with
  | comment _ _ => simp [regRow] at hx
  | pi _ => simp [regRow] at hx
  | elem i p t m a tx tl ks =>
    simp only [regRow, Bool.and_eq_true, decide_eq_true_eq, beq_iff_eq] at hx
    obtain ⟨⟨hp, hk⟩, hc⟩ := hx
    have hnp : ((Xml.elem i p t m a tx tl ks).ptag == paragraphTag) = false := by rw [hp]; exact rowTag_facts.1
    have hcn : countCells ks ≠ 0 := by omega
    have hdep : elemDepth (.elem i p t m a tx tl ks) = some 2 := by
      unfold elemDepth; rw [hp]
      simp only [rowTag_facts.2.1, rowTag_facts.2.2.1, Bool.or_self, Bool.false_eq_true, if_false]
      simp [nearestPar, hnp, nearestParL_rowKids ks hk, hcn]
    have hl : ((Xml.elem i p t m a tx tl ks).ptag == hyperlinkTag) = false := by rw [hp]; exact rowTag_facts.2.2.2.1
    have hm : tagMember (Xml.elem i p t m a tx tl ks).ptag = some "TABLE_ROW" := by rw [hp]; exact rowTag_facts.2.2.2.2
    simp only [walk, hdep, hl, Bool.false_eq_true, if_false, setCaretOpen_noImpl s _ _ hni] at h
    obtain ⟨s1, h1, h⟩ := bind_ok h
    have hop1 := (setCaret_frame s s1 _ _ h1).openPars
    have hs1 : s1.root = T2 T R ∧ s1.depth = 2 := by
      rcases hst with ⟨hd, hr⟩ | ⟨hd, hr, hR⟩
      · obtain ⟨hr1, hd1⟩ := setCaret_same s s1 2 _ hd (by omega) (by omega) h1
        exact ⟨by rw [hr1]; exact hr, hd1⟩
      · subst hR
        have hm0 : modAt (s.depth - 1) s.root (fun xs => pure (xs ++ [Nest.list []])) = .ok (T2 T []) := by
          rw [hd, hr]; rfl
        obtain ⟨s2, h2, hr2, hd2, _⟩ := setCaret_down1 s (some t.name) (by omega) _ hm0
        rw [hd] at h2 hd2
        rw [h1] at h2; cases h2; exact ⟨hr2, hd2⟩
    obtain ⟨hr1, hd1⟩ := hs1
    obtain ⟨roots, hro, h⟩ := bind_ok h
    have := pure_ok hro; subst this
    obtain ⟨⟨s2, rec⟩, h2, h⟩ := bind_ok h
    have ho : openStep cfg s1 (.elem i p t m a tx tl ks) c [] = .ok (s1, true) := by unfold openStep; rw [hm]; rfl
    rw [ho] at h2; cases h2
    obtain ⟨s3, h3, h⟩ := bind_ok h
    simp only [if_true] at h3
    obtain ⟨outs, hmatch, hst3, hop3⟩ := walkL_rowKids cfg num _ T R ks hk [] s1 s3 (Or.inr ⟨hd1, hr1, rfl⟩) (NoImpl_of_openPars hop1 hni) h3
    obtain ⟨s4, h4, h⟩ := bind_ok h
    have hcl : closeStep cfg s3 (.elem i p t m a tx tl ks) = .ok s3 := by
      rw [closeStep_noImpl cfg s3 _ (NoImpl_of_openPars (hop3.trans hop1) hni)]
      unfold closeStepCore; rw [hm]; rfl
    rw [hcl] at h4; cases h4
    -- at least one cell: the row exists
    have hlen : (rowCells cfg.dup R [] outs).length ≥ 1 := by
      rw [rowCells_length]
      have : outs ≠ [] := by
        intro e; subst e
        have := hmatch.length_eq
        unfold countCells at hc; rw [this] at hc; simp at hc
      cases outs with
      | nil => exact absurd rfl this
      | cons o os => simp; omega
    rcases hst3 with ⟨hd3, hr3⟩ | ⟨_, _, hC⟩
    · obtain ⟨s5, h5, hr5, hd5, hf5⟩ := setCaret_up s3 2 none (by omega) (by omega) (by omega)
      rw [h] at h5; cases h5
      exact ⟨outs, by simpa [Xml.kids] using hmatch, hd5, by rw [hr5, hr3]; rfl, hf5.openPars.trans (hop3.trans hop1)⟩
    · rw [hC] at hlen; simp at hlen

/-! ## a regular table -/

/-- the rows of a table, top to bottom, each laid out against the rows above it -/
def tableRows (dup : Bool) : List Nest → List (List CellOut) → List Nest
  | R, [] => R
  | R, outs :: rest => tableRows dup (R ++ [.list (rowCells dup R [] outs)]) rest

inductive RowsMatch (cfg : PartCfg) : List Xml → List (List CellOut) → Prop
  | nil : RowsMatch cfg [] []
  | cons {x : Xml} {o : List CellOut} {xs : List Xml} {os : List (List CellOut)} :
      CellsMatch cfg (x.kids.filter goodCell) o → RowsMatch cfg xs os → RowsMatch cfg (x :: xs) (o :: os)

theorem RowsMatch.length_eq {cfg : PartCfg} {xs : List Xml} {os : List (List CellOut)} (h : RowsMatch cfg xs os) : xs.length = os.length := by
  induction h with
  | nil => rfl
  | cons _ _ ih => simp [ih]

def tblKids : List Xml → Bool
  | [] => true
  | k :: ks => (regRow k || inert k) && tblKids ks

def countRows (ks : List Xml) : Nat := (ks.filter regRow).length

theorem regRow_not_inert (k : Xml) (h : regRow k = true) : inert k = false := by
  cases k with
  | elem i p t m a tx tl ks =>
    simp only [regRow, Bool.and_eq_true, beq_iff_eq] at h
    simp only [inert, h.1.1, rowTag_facts.2.2.2.2]; rfl
  | comment _ _ => simp [regRow] at h
  | pi _ => simp [regRow] at h

theorem tableRows_length (dup : Bool) : ∀ (outs : List (List CellOut)) (R : List Nest), (tableRows dup R outs).length = R.length + outs.length
  | [], R => by simp [tableRows]
  | o :: os, R => by simp only [tableRows, tableRows_length dup os, List.length_append, List.length_cons, List.length_nil]; omega

theorem walkL_tblKids (cfg : PartCfg) (num : Dict Str (List NumAttr)) (c : Bool) (T : List Nest) :
    ∀ (ks : List Xml), tblKids ks = true → ∀ (R : List Nest) (s s' : DC), TblState T R s → NoImpl s →
      walkL cfg num c s ks = .ok s' →
      ∃ outs, RowsMatch cfg (ks.filter regRow) outs ∧ TblState T (tableRows cfg.dup R outs) s' ∧ s'.openPars = s.openPars
  | [], _, R, s, s', hst, hni, h => by
    simp only [walkL] at h; have := pure_ok h; subst this
    exact ⟨[], RowsMatch.nil, hst, rfl⟩
  | k :: ks, hk, R, s, s', hst, hni, h => by
    simp only [tblKids, Bool.and_eq_true, Bool.or_eq_true] at hk
    simp only [walkL] at h
    obtain ⟨s1, h1, h⟩ := bind_ok h
    rcases hk.1 with hg | hi
    · obtain ⟨o, hm, hd1, hr1, hop1⟩ := walk_regRow cfg num c k hg T R s s1 hst hni h1
      obtain ⟨outs, hf, hst', hopq⟩ := walkL_tblKids cfg num c T ks hk.2 _ s1 s' (Or.inl ⟨hd1, hr1⟩) (NoImpl_of_openPars hop1 hni) h
      refine ⟨o :: outs, ?_, by simpa [tableRows] using hst', hopq.trans hop1⟩
      rw [List.filter_cons]; simp only [hg, if_true]
      exact RowsMatch.cons hm hf
    · rw [walk_inert cfg num k hi c s] at h1
      cases h1
      obtain ⟨outs, hf, hst', hopq⟩ := walkL_tblKids cfg num c T ks hk.2 R s s' hst hni h
      refine ⟨outs, ?_, hst', hopq⟩
      have : regRow k = false := by
        cases hgk : regRow k with
        | false => rfl
        | true => rw [regRow_not_inert k hgk] at hi; simp at hi
      rw [List.filter_cons]; simp only [this, Bool.false_eq_true, if_false]; exact hf

def regTbl : Xml → Bool
  | .elem i p t m a tx tl ks => ((Xml.elem i p t m a tx tl ks).ptag == tblTag) && tblKids ks && decide (1 ≤ countRows ks)
  | _ => false

theorem nearestPar_regRow (x : Xml) (h : regRow x = true) : nearestPar x = some 2 := by
  cases x with
  | elem i p t m a tx tl ks =>
    simp only [regRow, Bool.and_eq_true, decide_eq_true_eq, beq_iff_eq] at h
    obtain ⟨⟨hp, hk⟩, hc⟩ := h
    have hnp : ((Xml.elem i p t m a tx tl ks).ptag == paragraphTag) = false := by rw [hp]; exact rowTag_facts.1
    have : countCells ks ≠ 0 := by omega
    simp [nearestPar, hnp, nearestParL_rowKids ks hk, this]
  | comment _ _ => simp [regRow] at h
  | pi _ => simp [regRow] at h

theorem nearestParL_tblKids : ∀ (ks : List Xml), tblKids ks = true →
    nearestParL ks = if countRows ks = 0 then none else some 2
  | [], _ => rfl
  | k :: ks, h => by
    simp only [tblKids, Bool.and_eq_true, Bool.or_eq_true] at h
    have ih := nearestParL_tblKids ks h.2
    rcases h.1 with hg | hi
    · have : countRows (k :: ks) ≠ 0 := by unfold countRows; rw [List.filter_cons]; simp [hg]
      simp only [nearestParL, nearestPar_regRow k hg, ih, this, if_false]
      split <;> simp [optMin]
    · have hf : regRow k = false := by
        cases hf : regRow k with
        | false => rfl
        | true => rw [regRow_not_inert k hf] at hi; simp at hi
      have e : countRows (k :: ks) = countRows ks := by unfold countRows; rw [List.filter_cons]; simp [hf]
      simp only [nearestParL, nearestPar_inert k hi, ih, e]
      split <;> simp [optMin]

/-- **a regular table**, walked from ANY collector state (any caret depth, anything already
collected): exactly one table is appended at the top level; it has one row per source row; each
row's cells are the source cells laid out left to right (`rowCells`): a cell's paragraphs — or the
copy of the cell above at that grid column for a vertically continued cell when duplication is on —
followed by `gridSpan − 1` copies (duplication on) or single empty paragraphs (off). -/
theorem walk_regTbl (cfg : PartCfg) (num : Dict Str (List NumAttr)) (c : Bool) (x : Xml) (hx : regTbl x = true)
    (s s' : DC) (h1 : 1 ≤ s.depth) (h4 : s.depth ≤ 4) (hni : NoImpl s) (h : walk cfg num c s x = .ok s') :
    ∃ outs, RowsMatch cfg (x.kids.filter regRow) outs ∧ s'.depth = 1 ∧
      s'.root = s.root ++ [.list (tableRows cfg.dup [] outs)] ∧ s'.openPars = s.openPars := by
  cases x with
  | comment _ _ => simp [regTbl] at hx
  | pi _ => simp [regTbl] at hx
  | elem i p t m a tx tl ks =>
    simp only [regTbl, Bool.and_eq_true, decide_eq_true_eq, beq_iff_eq] at hx
    obtain ⟨⟨hp, hk⟩, hc⟩ := hx
    have hnp : ((Xml.elem i p t m a tx tl ks).ptag == paragraphTag) = false := by rw [hp]; exact tblTag_facts.1
    have hcn : countRows ks ≠ 0 := by omega
    have hdep : elemDepth (.elem i p t m a tx tl ks) = some 1 := by
      unfold elemDepth; rw [hp]
      simp only [tblTag_facts.2.1, tblTag_facts.2.2.1, Bool.or_self, Bool.false_eq_true, if_false]
      simp [nearestPar, hnp, nearestParL_tblKids ks hk, hcn]
    have hl : ((Xml.elem i p t m a tx tl ks).ptag == hyperlinkTag) = false := by rw [hp]; exact tblTag_facts.2.2.2.1
    have hm : tagMember (Xml.elem i p t m a tx tl ks).ptag = some "TABLE" := by rw [hp]; exact tblTag_facts.2.2.2.2
    simp only [walk, hdep, hl, Bool.false_eq_true, if_false, setCaretOpen_noImpl s _ _ hni] at h
    obtain ⟨s1, hs1, h⟩ := bind_ok h
    obtain ⟨s1', hs1', hr1, hd1, hf1⟩ := setCaret_up s 1 (some t.name) (by omega) h1 h4
    rw [hs1] at hs1'; cases hs1'
    have hop1 := hf1.openPars
    obtain ⟨roots, hro, h⟩ := bind_ok h
    have := pure_ok hro; subst this
    obtain ⟨⟨s2, rec⟩, h2, h⟩ := bind_ok h
    have ho : openStep cfg s1 (.elem i p t m a tx tl ks) c [] = .ok (s1, true) := by unfold openStep; rw [hm]; rfl
    rw [ho] at h2; cases h2
    obtain ⟨s3, h3, h⟩ := bind_ok h
    simp only [if_true] at h3
    obtain ⟨outs, hmatch, hst3, hop3⟩ := walkL_tblKids cfg num _ s.root ks hk [] s1 s3 (Or.inr ⟨hd1, hr1, rfl⟩) (NoImpl_of_openPars hop1 hni) h3
    obtain ⟨s4, h4', h⟩ := bind_ok h
    have hcl : closeStep cfg s3 (.elem i p t m a tx tl ks) = .ok s3 := by
      rw [closeStep_noImpl cfg s3 _ (NoImpl_of_openPars (hop3.trans hop1) hni)]
      unfold closeStepCore; rw [hm]; rfl
    rw [hcl] at h4'; cases h4'
    have hlen : (tableRows cfg.dup [] outs).length ≥ 1 := by
      rw [tableRows_length]
      have := hmatch.length_eq
      unfold countRows at hc; simp; omega
    rcases hst3 with ⟨hd3, hr3⟩ | ⟨_, _, hR⟩
    · obtain ⟨s5, h5, hr5, hd5, hf5⟩ := setCaret_up s3 1 none (by omega) (by omega) (by omega)
      rw [h] at h5; cases h5
      exact ⟨outs, by simpa [Xml.kids] using hmatch, hd5, by rw [hr5, hr3]; rfl, hf5.openPars.trans (hop3.trans hop1)⟩
    · rw [hR] at hlen; simp at hlen

end D2P
