import Lean.Data.Json
import D2P.Model.Output
import D2P.Spec.Skeleton
import D2P.Spec.Runs
import D2P.Model.Iterators
import D2P.Model.Lifecycle
import D2P.Check.C01
import D2P.Check.C13
import D2P.Check.Merge
import D2P.Check.C16
import D2P.Check.C13Src
import D2P.Model.Replace
import D2P.Model.Save
import D2P.Props.C02BodyStray
import D2P.Props.C02Notes
import D2P.Props.C02Deep
import D2P.Props.C02DeepCells
import D2P.Props.C02Post
import D2P.Props.C02PostNodup
/-!
# JSON line protocol between the Python harness and the model
-/
open Lean D2P

def jStr (s : Str) : Json := .str (String.ofList s)
def jOptStr : Option Str → Json | some s => jStr s | none => .null

def getStrOpt (j : Json) (k : String) : Option Str :=
  match j.getObjVal? k with | .ok (.str s) => some s.toList | _ => none

partial def xmlOfJson (nsmaps : Array NsMap) (j : Json) : Except String Xml := do
  match j.getObjVal? "c" with
  | .ok (.str t) => return .comment t.toList (getStrOpt j "t")
  | _ => pure ()
  match j.getObjVal? "pi" with
  | .ok _ => return .pi (getStrOpt j "t")
  | _ => pure ()
  let id ← j.getObjValAs? Nat "i"
  let name ← j.getObjValAs? String "l"
  let mi ← j.getObjValAs? Nat "m"
  let kids ← match j.getObjVal? "k" with
    | .ok (.arr a) => a.toList.mapM (xmlOfJson nsmaps)
    | _ => pure []
  let attrs ← match j.getObjVal? "a" with
    | .ok (.arr a) => a.toList.mapM fun p => do
        let u := match p.getArrVal? 0 with | .ok (.str s) => some s.toList | _ => none
        let l ← p.getArrVal? 1 >>= (·.getStr?)
        let v ← p.getArrVal? 2 >>= (·.getStr?)
        pure ((⟨u, l.toList⟩ : QName), v.toList)
    | _ => pure []
  return .elem id (getStrOpt j "p") ⟨getStrOpt j "u", name.toList⟩ (nsmaps[mi]?.getD []) attrs (getStrOpt j "x") (getStrOpt j "t") kids

def nsmapsOfJson (j : Json) : Except String (Array NsMap) := do
  match j with
  | .arr a => a.mapM fun m => do
      match m with
      | .arr es => es.toList.mapM fun e => do
          let p := match e.getArrVal? 0 with | .ok (.str s) => some s.toList | _ => none
          let u ← e.getArrVal? 1 >>= (·.getStr?)
          pure (p, u.toList)
      | _ => throw "nsmap"
  | _ => throw "nsmaps"

def archiveOfJson (j : Json) : Except String Archive := do
  let nsmaps ← nsmapsOfJson (← j.getObjVal? "nsmaps")
  let ms ← match ← j.getObjVal? "members" with
    | .arr a => a.toList.mapM fun m => do
        let name ← m.getArrVal? 0 >>= (·.getStr?)
        let body ← m.getArrVal? 1
        match body.getObjVal? "xml" with
        | .ok x => pure (name.toList, Member.xml (← xmlOfJson nsmaps x))
        | _ => pure (name.toList, Member.bytes ((body.getObjValAs? String "hex").toOption.getD "").toList)
    | _ => throw "members"
  pure { members := ms }

def errName : PyErr → String
  | .keyError => "KeyError" | .indexError => "IndexError" | .valueError => "ValueError" | .typeError => "TypeError"
  | .attributeError => "AttributeError" | .stopIteration => "StopIteration" | .caretDepth => "CaretDepthError"
  | .closedArchive => "ValueError" | .xmlSyntax => "XMLSyntaxError" | .badZip => "BadZipFile" | .modelLimit => "MODEL-LIMIT"

def jM (f : α → Json) : M α → Json
  | .ok a => Json.mkObj [("ok", f a)]
  | .error e => Json.mkObj [("err", .str (errName e))]

partial def jTree : Tree → Json
  | .leaf s => jStr s
  | .node ts => .arr (ts.map jTree).toArray
def jTrees (ts : List Tree) : Json := .arr (ts.map jTree).toArray

def jPar (p : Par) : Json :=
  Json.mkObj [("runs", match p.runStrings with | .ok rs => .arr (rs.map jStr).toArray | .error e => .str (errName e)),
    ("lin", .arr (p.lineage.map jOptStr).toArray), ("style", jStr p.style),
    ("lp", .arr #[jOptStr p.listPos.1, toJson p.listPos.2]),
    ("elem", match p.elem with | some i => toJson i | none => .null), ("copy", toJson p.copy),
    ("hs", .arr (p.htmlStyle.map jStr).toArray),
    ("rs", .arr (p.runs.map fun r => Json.arr #[.arr (r.style.map jStr).toArray, jStr r.text]).toArray)]

partial def jNest : Nest → Json
  | .par p => jPar p
  | .list xs => .arr (xs.map jNest).toArray
def jNests (xs : List Nest) : Json := .arr (xs.map jNest).toArray

def parts : List String := ["header", "footer", "body", "footnotes", "endnotes", "document"]

/-- `_get_pars` through the structural machine `skeletonOf` -/
def skeletonParts (o : Opts) (a : Archive) (files : List Rel) (numM : M NumTable) : List Rel → M (List Nest)
  | [] => pure []
  | r :: rs =>
    (rootElement o a files r) >>= fun cr =>
    (partRels a files r) >>= fun rels =>
    numM >>= fun num =>
    (skeletonOf cr.1.dup rels num cr.2) >>= fun dc =>
    (skeletonParts o a files numM rs) >>= fun rest => pure (dc.root ++ rest)

def handlePackage (j : Json) : Except String Json := do
  let a ← archiveOfJson j
  let o : Opts := { html := (j.getObjValAs? Bool "html").toOption.getD false, dup := (j.getObjValAs? Bool "dup").toOption.getD true }
  let want : List String := match j.getObjVal? "want" with
    | .ok (.arr w) => w.toList.filterMap fun x => x.getStr?.toOption
    | _ => ["pars", "runs", "plain", "text", "comments", "images", "core", "files"]
  let mut out : List (String × Json) := []
  -- evaluate `DocxReader.files` and the five `_get_pars` once; every view is derived from them
  -- by the same functions the theorems are about (`view*From`)
  let files := a.files
  let numM := numId2Attrs a
  let memo : List (String × M (List Nest)) := ["header", "officeDocument", "footer", "footnotes", "endnotes"].map fun t =>
    (t, files >>= fun fs => getParsF o a fs numM t)
  let g : ParsOf := fun t => match memo.find? (·.1 == t) with | some e => e.2 | none => getPars o a t
  -- the structural machine (no text, no `html`) on the same merged trees
  let memoA : List (String × M (List Nest)) := ["header", "officeDocument", "footer", "footnotes", "endnotes"].map fun t =>
    (t, files >>= fun fs => skeletonParts o a fs numM (filesOfType fs [lit t]))
  let gA : ParsOf := fun t => match memoA.find? (·.1 == t) with | some e => e.2 | none => .error .modelLimit
  for p in parts do
    if want.contains "skel" then out := out ++ [(p ++ "_skel", jM jNests (viewParsFrom gA p))]
  for p in parts do
    if want.contains "pars" then out := out ++ [(p ++ "_pars", jM jNests (viewParsFrom g p))]
    if want.contains "runs" then out := out ++ [(p ++ "_runs", jM jTrees (viewRunsFrom g p))]
    if want.contains "plain" then out := out ++ [(p, jM jTrees (viewPlainFrom g p))]
  if want.contains "text" then out := out ++ [("text", jM jStr (docTextFrom g))]
  if want.contains "comments" then
    out := out ++ [("comments", jM (fun cs => .arr (cs.map fun c => Json.arr #[jStr c.reference, jStr c.author, jStr c.date, jStr c.text]).toArray) (comments o a))]
  if want.contains "images" then
    out := out ++ [("images", jM (fun d => .arr (d.map fun kv => Json.arr #[jStr kv.1, jStr kv.2]).toArray) (images a))]
  if want.contains "core" then
    out := out ++ [("core", jM (fun d => .arr (d.map fun kv => Json.arr #[jStr kv.1, jOptStr kv.2]).toArray) (coreProperties a))]
  if want.contains "files" then
    out := out ++ [("files", jM (fun fs => .arr (fs.map fun f => Json.arr #[jStr f.path, jStr f.type, jStr f.id, jStr f.target]).toArray) a.files)]
  pure (Json.mkObj out)


/-! ## decoding the implementation's output (for the checkers) -/

def optStrOfJson : Json → Option Str | .str s => some s.toList | _ => none

def parOfJson (j : Json) : Except String Par := do
  let lin ← match ← j.getObjVal? "lin" with
    | .arr a => pure (a.toList.map optStrOfJson)
    | _ => throw "lin"
  let rs ← match ← j.getObjVal? "rs" with
    | .arr a => a.toList.mapM fun r => do
        let st ← match ← r.getArrVal? 0 with
          | .arr x => pure (x.toList.filterMap fun y => (y.getStr?.toOption).map String.toList)
          | _ => throw "rs.style"
        let tx ← r.getArrVal? 1 >>= (·.getStr?)
        pure ({ style := st, text := tx.toList } : Run)
    | _ => throw "rs"
  let hs ← match ← j.getObjVal? "hs" with
    | .arr x => pure (x.toList.filterMap fun y => (y.getStr?.toOption).map String.toList)
    | _ => throw "hs"
  let style ← j.getObjValAs? String "style"
  pure { elem := none, htmlStyle := hs, style := style.toList, lineage := lin, runs := rs }

partial def nestOfJson (j : Json) : Except String Nest :=
  match j with
  | .arr a => do pure (.list (← a.toList.mapM nestOfJson))
  | _ => do pure (.par (← parOfJson j))

partial def treeOfJson (j : Json) : Except String Tree :=
  match j with
  | .arr a => do pure (.node (← a.toList.mapM treeOfJson))
  | .str s => pure (.leaf s.toList)
  | _ => throw "tree leaf is not a string"

def listOf (f : Json → Except String α) (j : Json) : Except String (List α) :=
  match j with | .arr a => a.toList.mapM f | _ => throw "expected a list"

/-- `{"op":"c01","pars":…,"runs":…,"plain":…}`: the C01 checker on the implementation's views -/
def handleC01 (j : Json) : Except String Json := do
  let pars ← listOf nestOfJson (← j.getObjVal? "pars")
  let runs ← listOf treeOfJson (← j.getObjVal? "runs")
  let plain ← listOf treeOfJson (← j.getObjVal? "plain")
  pure (Json.mkObj [("check", toJson (checkC01 ⟨pars, runs, plain⟩))])

partial def pyValOfJson (j : Json) : PyVal :=
  match j with
  | .arr a => .list (a.toList.map pyValOfJson)
  | .str s => .str s.toList
  | other => .obj other.compress.toList

partial def jPyVal : PyVal → Json
  | .list xs => .arr (xs.map jPyVal).toArray
  | .str s => jStr s
  | .obj t => match Json.parse (String.ofList t) with | .ok j => j | .error _ => .null

/-- `{"op":"enum","v":…,"depth":d}` -/
def handleEnum (j : Json) : Except String Json := do
  let v := pyValOfJson (← j.getObjVal? "v")
  let d ← j.getObjValAs? Int "depth"
  let e := jM (fun ps => .arr (ps.map fun p => Json.arr #[toJson p.1, jPyVal p.2]).toArray) (enumAtDepth v d)
  let i := jM (fun xs => .arr (xs.map jPyVal).toArray) (iterAtDepth v d)
  pure (Json.mkObj [("enum", e), ("iter", i)])

/-- `{"op":"render","n":k,"roman":bool}`: the number renderers (Roman only on request: it is
linear in `n` by construction of the code it mirrors) -/
def handleRender (j : Json) : Except String Json := do
  let n ← j.getObjValAs? Int "n"
  let roman := (j.getObjValAs? Bool "roman").toOption.getD false
  let base := [("lower_letter", jM jStr (lowerLetter n)), ("upper_letter", jM jStr (upperLetter n)), ("decimal", jStr (decimalStr n))]
  let extra := if roman then [("lower_roman", jM jStr (lowerRoman n)), ("upper_roman", jM jStr (upperRoman n))] else []
  pure (Json.mkObj (base ++ extra))

partial def jXml : Xml → Json
  | .elem _ p t _ a tx tl ks => Json.mkObj [("p", jOptStr p), ("u", jOptStr t.ns), ("l", jStr t.name),
      ("a", .arr (a.map fun (q, v) => Json.arr #[jOptStr q.ns, jStr q.name, jStr v]).toArray),
      ("x", jOptStr tx), ("t", jOptStr tl), ("k", .arr (ks.map jXml).toArray)]
  | .comment c tl => Json.mkObj [("c", jStr c), ("t", jOptStr tl)]
  | .pi tl => Json.mkObj [("pi", toJson (1 : Nat)), ("t", jOptStr tl)]

/-- `{"op":"merged", …package…}`: `File.root_element` of every content part (path ↦ merged tree) -/
def handleMerged (j : Json) : Except String Json := do
  let a ← archiveOfJson j
  let o : Opts := { html := (j.getObjValAs? Bool "html").toOption.getD false, dup := true }
  match a.files with
  | .error e => pure (Json.mkObj [("err", .str (errName e))])
  | .ok files =>
    let cs := filesOfType files contentTypes
    -- "<again>": the parts whose merged tree is NOT a fixed point of `mergeElems` (C16: saving the saved file)
    let again := cs.filter fun r =>
      match rootElement o a files r with
      | .ok cr => (match mergeElems cr.1 cr.2 with
          | .ok m2 => (jXml m2).compress != (jXml cr.2).compress
          | .error _ => true)
      | .error _ => false
    pure (Json.mkObj ((cs.map fun r => (String.ofList r.path, jM (fun cr => jXml cr.2) (rootElement o a files r))) ++
      [("<again>", .arr (again.map fun r => jStr r.path).toArray),
       -- "<notgood>": the parts whose SOURCE tree fails `goodTree`, the hypothesis of `mergeElems_idem`
       ("<notgood>", .arr ((cs.filter fun r => match a.readXml r.path with | .ok root => !goodTree root | .error _ => false).map fun r => jStr r.path).toArray)]))

mutual
/-- the paragraphs of a tree, in document order -/
partial def parsBelow : Xml → List Xml
  | .elem i p t m a tx tl ks => (if (Xml.elem i p t m a tx tl ks).ptag == paragraphTag then [.elem i p t m a tx tl ks] else []) ++ parsBelowL ks
  | _ => []
partial def parsBelowL : List Xml → List Xml
  | [] => []
  | k :: ks => parsBelow k ++ parsBelowL ks
end

/-- `{"op":"runs", …package…, "html": b}`: for every paragraph of the main part that contains no
paragraph, cell or note and is not a list item, the runs (tags, text), their renderings and the
comment ranges (relative to the paragraph's first run) that the run machine `runsOfL` prescribes -/
def handleRuns (j : Json) : Except String Json := do
  let a ← archiveOfJson j
  let o : Opts := { html := (j.getObjValAs? Bool "html").toOption.getD false, dup := true }
  match a.files with
  | .error e => pure (Json.mkObj [("err", .str (errName e))])
  | .ok files =>
    match filesOfType files [lit "officeDocument"] with
    | [] => pure (Json.mkObj [("err", .str "no main part")])
    | r :: _ =>
      match rootElement o a files r, partRels a files r, numId2Attrs a with
      | .ok cr, .ok rels, .ok num =>
        let cfg : PartCfg := { cr.1 with rels := rels }
        let ps := (parsBelow cr.2).filter fun p => simpleL p.kids && (bulletFmt p).1.isNone
        let out := ps.map fun p =>
          let res := runsOfL cfg 0 (linksOf cfg num false) p.kids ⟨RState.init, []⟩
          Json.mkObj [("elem", match p.id? with | some i => toJson i | none => .null),
            ("machine", jM (fun st => Json.mkObj [
              ("strings", .arr (st.r.runs.map fun rn => match rn.str with | .ok t => jStr t | .error e => .str ("!" ++ errName e)).toArray),
              ("styles", .arr (st.r.runs.map fun rn => Json.arr (rn.style.map jStr).toArray).toArray),
              ("ranges", .arr (st.ranges.map fun kv => Json.arr #[jStr kv.1, toJson kv.2.1, toJson kv.2.2]).toArray)]) res)]
        pure (Json.mkObj [("ok", .arr out.toArray), ("path", jStr r.path)])
      | _, _, _ => pure (Json.mkObj [("err", .str "main part cannot be read")])

/-- `{"op":"replace","tree":…,"nsmaps":…,"old":"…","new":"…"}`: `replace_root_text(root, old, new)` -/
def handleReplace (j : Json) : Except String Json := do
  let nsmaps ← nsmapsOfJson (← j.getObjVal? "nsmaps")
  let root ← xmlOfJson nsmaps (← j.getObjVal? "tree")
  let old ← j.getObjValAs? String "old"
  let new ← j.getObjValAs? String "new"
  pure (jM jXml (replaceIn old.toList new.toList root))

def unitOfJson (j : Json) : UnitKey :=
  match j with
  | .arr #[.str "files"] => .files
  | .arr #[.str "num"] => .num
  | .arr #[.str "root", .str p] => .root p.toList
  | .arr #[.str "raw", .str p] => .raw p.toList
  | _ => .raw []

/-- `{"op":"lifecycle","needs":[[units…],…],"ops":[["read",k]|["close"]|["exit",b]…]}`: the reader's
cache / handle state machine run over an operation history; attribute `k` needs the units `needs[k]` -/
def handleLifecycle (j : Json) : Except String Json := do
  let needsArr ← match ← j.getObjVal? "needs" with
    | .arr a => pure (a.toList.map fun us => match us with | .arr u => u.toList.map unitOfJson | _ => [])
    | _ => throw "needs"
  let needs : Needs := fun _ a => { units := needsArr.getD a [], collectors := [] }
  let ops ← match ← j.getObjVal? "ops" with
    | .arr a => a.toList.mapM fun o => match o with
        | .arr #[.str "read", k] => do pure (Op.read (← k.getNat?))
        | .arr #[.str "close"] => pure Op.close
        | .arr #[.str "exit", .bool b] => pure (Op.withExit b)
        | _ => throw "op"
    | _ => throw "ops"
  let r := run needs [] {} ops
  let res := r.2.map fun x => match x with
    | .value _ => Json.str "value" | .saved => .str "saved" | .valueError => .str "ValueError"
    | .done b => Json.mkObj [("done", toJson true), ("exception_propagates", toJson b)]
  pure (Json.mkObj [("results", .arr res.toArray), ("closed", toJson r.1.closed), ("zipOpen", toJson r.1.zipOpen)])

/-- `{"op":"save", …package…}`: member names of the archive `DocxReader.save` writes -/
def handleSave (j : Json) : Except String Json := do
  let a ← archiveOfJson j
  let o : Opts := { html := (j.getObjValAs? Bool "html").toOption.getD false, dup := true }
  pure (jM (fun (out : Archive) => .arr (out.members.map fun m => jStr m.1).toArray) (save o a))

/-- `{"op":"savehyp", …package…}`: the hypotheses of `C16_reextract`, evaluated on the package -/
def handleSaveHyp (j : Json) : Except String Json := do
  let a ← archiveOfJson j
  let o : Opts := { html := (j.getObjValAs? Bool "html").toOption.getD false, dup := true }
  match a.files, save o a with
  | .ok files, .ok out =>
    let same := match out.files with | .ok f2 => decide (f2 = files) | .error _ => false
    let good := files.all fun r => !contentTypes.contains r.type || (match a.readXml r.path with | .ok root => goodTree root | .error _ => true)
    let imgs := files.all fun r => !(r.type == lit "image" || r.type == lit "core-properties") || !(contentPaths files).contains r.path
    pure (Json.mkObj [("files_same", toJson same), ("saveSane", toJson (saveSane files)), ("goodTree", toJson good), ("imagesSane", toJson imgs)])
  | _, _ => pure (Json.mkObj [("err", .str "save or files raise")])

/-- `{"op":"valid", …package…}`: `validT` (hypothesis of `C13_part_total`) of every content part as it is walked
(after `merge_elems`) -/
def handleValid (j : Json) : Except String Json := do
  let a ← archiveOfJson j
  let o : Opts := { html := (j.getObjValAs? Bool "html").toOption.getD false, dup := true }
  match a.files with
  | .error e => pure (Json.mkObj [("err", .str (errName e))])
  | .ok files =>
    let cs := filesOfType files contentTypes
    pure (Json.mkObj ((cs.map fun r => (String.ofList r.path, jM (fun cr => toJson (validT cr.2)) (rootElement o a files r))) ++
      [("<package>", toJson (validPkg o a)), ("<comments>", toJson (commentsOK a)),
       -- hypotheses of `C13_merge_total` on the SOURCE trees: every content part is `validT` and passes `goodTree` and `sameWb`
       ("<srcpackage>", toJson (validSrcPkg a)),
       -- hypothesis of `C02_siblings` (the children of the body form a sequence `C02_items` speaks about), per content part as walked
       ("<items>", Json.mkObj (cs.map fun r => (String.ofList r.path,
          match rootElement o a files r with | .ok cr => toJson (itemsOK (bodyKids cr.2)) | .error _ => Json.null))),
       ("<partok>", Json.mkObj (cs.map fun r => (String.ofList r.path,
          match rootElement o a files r with | .ok cr => toJson (partItemsOK cr.2) | .error _ => Json.null))),
       ("<notesok>", Json.mkObj (cs.map fun r => (String.ofList r.path,
          match rootElement o a files r with | .ok cr => toJson (notesPartOK cr.2) | .error _ => Json.null))),
       ("<deepok>", Json.mkObj (cs.map fun r => (String.ofList r.path,
          match rootElement o a files r with | .ok cr => toJson (deepPartOK cr.2) | .error _ => Json.null))),
       ("<deepcok>", Json.mkObj (cs.map fun r => (String.ofList r.path,
          match rootElement o a files r with | .ok cr => toJson (deepCPartOK cr.2) | .error _ => Json.null))),
       -- the right-hand side of `C02_post_part` (the paragraphs in the order of their closing tags) and the hypothesis of
       -- `C02_post_document_order` (no paragraph encloses another one), per content part as walked
       ("<post>", Json.mkObj (cs.map fun r => (String.ofList r.path,
          match rootElement o a files r with | .ok cr => toJson (post cr.2) | .error _ => Json.null))),
       -- hypothesis of `C02_post_part_dup` (no cell continues a vertical merge)
       ("<vfree>", Json.mkObj (cs.map fun r => (String.ofList r.path,
          match rootElement o a files r with | .ok cr => toJson (vfree cr.2) | .error _ => Json.null))),
       -- hypothesis of `C02_post_nodup` (pairwise distinct element identities; quadratic, evaluated for parts of up to 3000 elements)
       ("<uniq>", Json.mkObj (cs.map fun r => (String.ofList r.path,
          match rootElement o a files r with
          | .ok cr => if (allIds cr.2).length ≤ 3000 then toJson (uniqueIds cr.2) else Json.null
          | .error _ => Json.null))),
       ("<flat>", Json.mkObj (cs.map fun r => (String.ofList r.path,
          match rootElement o a files r with | .ok cr => toJson (leafIds cr.2 == pre cr.2) | .error _ => Json.null))),
       ("<groups>", toJson ((cs.map fun r => match rootElement o a files r with
          | .ok cr => ((itemsOf (bodyKids cr.2)).filter fun i => match i with | .grp _ => true | _ => false).length | .error _ => 0).foldl (· + ·) 0)),
       ("<sources>", toJson (cs.all fun r => match a.readXml r.path with | .ok root => validT root && goodTree root && sameWb root | .error _ => true))]))

def handle (line : String) : Json :=
  match Json.parse line with
  | .error e => Json.mkObj [("bad", .str e)]
  | .ok j =>
    match j.getObjValAs? String "op" with
    | .ok "package" => (match handlePackage j with | .ok r => r | .error e => Json.mkObj [("bad", .str e)])
    | .ok "c01" => (match handleC01 j with | .ok r => r | .error e => Json.mkObj [("bad", .str e)])
    | .ok "enum" => (match handleEnum j with | .ok r => r | .error e => Json.mkObj [("bad", .str e)])
    | .ok "merged" => (match handleMerged j with | .ok r => r | .error e => Json.mkObj [("bad", .str e)])
    | .ok "replace" => (match handleReplace j with | .ok r => r | .error e => Json.mkObj [("bad", .str e)])
    | .ok "lifecycle" => (match handleLifecycle j with | .ok r => r | .error e => Json.mkObj [("bad", .str e)])
    | .ok "save" => (match handleSave j with | .ok r => r | .error e => Json.mkObj [("bad", .str e)])
    | .ok "savehyp" => (match handleSaveHyp j with | .ok r => r | .error e => Json.mkObj [("bad", .str e)])
    | .ok "runs" => (match handleRuns j with | .ok r => r | .error e => Json.mkObj [("bad", .str e)])
    | .ok "valid" => (match handleValid j with | .ok r => r | .error e => Json.mkObj [("bad", .str e)])
    | .ok "render" => (match handleRender j with | .ok r => r | .error e => Json.mkObj [("bad", .str e)])
    | _ => Json.mkObj [("bad", .str "unknown op")]

partial def loop (h : IO.FS.Stream) (out : IO.FS.Stream) : IO Unit := do
  let line ← h.getLine
  if line.isEmpty then return ()
  out.putStrLn (handle line).compress
  out.flush
  loop h out

def main : IO Unit := do loop (← IO.getStdin) (← IO.getStdout)
